// Naive bit-level reference for Emboss scalar layouts (DESIGN 2.5).
// Bit i of a container of nbytes bytes: bit (i % 8) of byte (i / 8) counted from the
// least-significant end of the container in its byte order -- exactly the two
// pictures in doc/language-reference.md.  One bit at a time; no masks, no wide shifts.
#ifndef VERIF_REF_BITS_H_
#define VERIF_REF_BITS_H_
#include <cstdint>
#include <cstring>

namespace refbits {
enum Order { kLE = 0, kBE = 1 };
typedef unsigned __int128 u128;
typedef __int128 i128;

static inline int get_bit(const unsigned char *p, int nbytes, Order ord, int i) {
  int byte = i / 8;
  int idx = (ord == kLE) ? byte : (nbytes - 1 - byte);
  return (p[idx] >> (i % 8)) & 1;
}
static inline void put_bit(unsigned char *p, int nbytes, Order ord, int i, int b) {
  int byte = i / 8;
  int idx = (ord == kLE) ? byte : (nbytes - 1 - byte);
  unsigned char one = (unsigned char)(1u << (i % 8));
  if (b) p[idx] = (unsigned char)(p[idx] | one);
  else p[idx] = (unsigned char)(p[idx] & (unsigned char)~one);
}
// raw unsigned value of bits [o, o+w)
static inline u128 get_bits(const unsigned char *p, int nbytes, Order ord, int o, int w) {
  u128 r = 0;
  for (int k = w - 1; k >= 0; --k) r = r * 2 + (u128)get_bit(p, nbytes, ord, o + k);
  return r;
}
static inline void put_bits(unsigned char *p, int nbytes, Order ord, int o, int w, u128 v) {
  for (int k = 0; k < w; ++k) { put_bit(p, nbytes, ord, o + k, (int)(v % 2)); v = v / 2; }
}
static inline u128 pow2(int n) { u128 r = 1; for (int i = 0; i < n; ++i) r = r * 2; return r; }
static inline i128 decode_int(u128 raw, int w) {
  // two's complement at width w
  if (raw >= pow2(w - 1)) return (i128)raw - (i128)pow2(w);
  return (i128)raw;
}
// BCD: one decimal digit per nibble, high partial nibble zero-extended; valid iff every nibble <= 9
static inline bool decode_bcd(u128 raw, int w, u128 *out) {
  u128 value = 0, mul = 1;
  for (int k = 0; k < w; k += 4) {
    int nb = (w - k) < 4 ? (w - k) : 4;
    unsigned nib = 0;
    for (int j = nb - 1; j >= 0; --j) nib = nib * 2 + (unsigned)((raw / pow2(k + j)) % 2);
    if (nib > 9) return false;
    value = value + mul * nib;
    mul = mul * 10;
  }
  *out = value;
  return true;
}
static inline u128 bcd_max(int w) {
  u128 m = 1;
  for (int k = 0; k + 4 <= w; k += 4) m = m * 10;
  m = m * pow2(w % 4);
  return m - 1;
}
static inline u128 encode_bcd(u128 value, int w) {
  u128 raw = 0;
  int k = 0;
  while (value > 0) { raw = raw + (value % 10) * pow2(k); value = value / 10; k += 4; }
  (void)w;
  return raw;
}
}  // namespace refbits
#endif
