"""C12 -- names resolve to the one lexically visible definition, or the module is rejected.
Every scope tree of a bounded family (import alias, top-level / nested / same-named types,
enums, a type shadowing a prelude name, a type nested in a same-named type, fields with
abbreviations, parameters) x every probe reference form x every site; oracle = a small
resolver of the documented scoping rules with the intended target known by construction."""
import itertools
import json

from vk import common

PROPERTY = "C12"
LEVEL = "exploration"
RULE = ("scope trees: import alias im (struct Aa, enum Bb) x optional top-level struct Aa / enum Bb / struct Cc x Outer with optional "
        "nested struct Aa, enum Bb, struct UInt (prelude name), struct Outer (own name), struct Cc; probe = one reference of each form "
        "(type refs Aa, Bb, UInt, Outer, Cc, Outer.Aa, Outer.Outer, im.Aa, im.Bb, Zz, im.Zz; value refs x, xa (abbreviation), p "
        "(parameter), Bb.VV, Outer.Bb.VV, im.Bb.VV, VV, y.x, y.xa, o.x, o.xa, Aa.k, im.Aa.k, zz, x.y, this) at each site (field of "
        "Outer, field of nested Outer.Aa, field of sibling Dd, enum value, struct [requires], field [requires]). Oracle: resolved "
        "canonical name == intended target, or an error iff the construction made the name missing / duplicate / ambiguous; every "
        "definition's canonical name is unique and leads back to it. Non-trivial = probe whose head name has >=1 candidate; "
        "distinct by (tree, probe, site).")
ASSUMPTIONS = ["scoping model in checks/c12.py: own scope sees everything; enclosing types, module and prelude contribute type names and "
               "import aliases only; members after a dot come from the referenced entity; abbreviations are private"]
TIMEOUT = 1800

IMP = "struct Aa:\n  0 [+1]  UInt  x\n  let k = 3\nenum Bb:\n  VV = 1\n"
PRELUDE_TYPES = ["UInt", "Int", "Bcd", "Flag", "Float"]

TOP_FLAGS = ["top_aa", "top_bb", "top_cc"]
NEST_FLAGS = ["n_aa", "n_bb", "n_uint", "n_outer", "n_cc"]
TYPE_PROBES = ["Aa", "Bb", "UInt", "Outer", "Cc", "Outer.Aa", "Outer.Outer", "im.Aa", "im.Bb", "Zz", "im.Zz", "Outer.Bb"]
VALUE_PROBES = ["x", "xa", "p", "Bb.VV", "Outer.Bb.VV", "im.Bb.VV", "VV", "y.x", "y.xa", "o.x", "o.xa", "Aa.k", "im.Aa.k", "zz",
                "x.y", "Outer.x", "im.Aa.x", "Cc.VV", "im", "ya.x", "oy.x", "o.y.x", "o.ya.x", "oy.k", "ya.zz", "o.p", "p.x", "o.p.x", "Outer.p", "nib", "nb", "big", "o.nib", "o.nb"]
SITES_TYPE = ["outer_field", "nested_field", "dd_field"]
SITES_VALUE = ["outer_let", "nested_let", "dd_let", "outer_sreq", "enum_value"]


class Node(object):
    def __init__(self, name, kind, path, children=None, vis="type", ftype=None):
        self.name, self.kind, self.path = name, kind, path
        self.children = children or []          # list (duplicates possible by construction)
        self.vis = vis                          # "type" searchable, "local", "private"
        self.ftype = ftype                      # for fields: Node of their type (or None for scalars)


def build(cfg):
    """Returns (files, model root dict) for a configuration (dict of flags)."""
    M = "m.emb"
    lines = ['import "imp.emb" as im', '[$default byte_order: "LittleEndian"]']
    mod = Node("<m>", "module", (M,))
    imp = Node("<imp>", "module", ("imp.emb",))
    iaa = Node("Aa", "struct", ("imp.emb", "Aa"))
    iaa.children = [Node("x", "field", ("imp.emb", "Aa", "x"), vis="local"), Node("k", "const", ("imp.emb", "Aa", "k"), vis="local")]
    ibb = Node("Bb", "enum", ("imp.emb", "Bb"))
    ibb.children = [Node("VV", "value", ("imp.emb", "Bb", "VV"), vis="local")]
    imp.children = [iaa, ibb]
    alias = Node("im", "alias", (M, "im"))
    alias.target = imp
    mod.children.append(alias)

    def struct_aa(path, indent):
        n = Node("Aa", "struct", path)
        n.children = [Node("x", "field", path + ("x",), vis="local"), Node("k", "const", path + ("k",), vis="local")]
        text = [indent + "struct Aa:", indent + "  0 [+1]  %s  x" % ("Int" if indent else "UInt"), indent + "  let k = 4"]
        return n, text

    def enum_bb(path, indent, val):
        n = Node("Bb", "enum", path)
        n.children = [Node("VV", "value", path + ("VV",), vis="local")]
        return n, [indent + "enum Bb:", indent + "  VV = %d" % val]

    if cfg["top_aa"]:
        n, t = struct_aa((M, "Aa"), "")
        mod.children.append(n)
        lines += t
    if cfg["top_bb"]:
        n, t = enum_bb((M, "Bb"), "", 2)
        mod.children.append(n)
        lines += t
    if cfg["top_cc"]:
        n = Node("Cc", "struct", (M, "Cc"))
        n.children = [Node("x", "field", (M, "Cc", "x"), vis="local")]
        mod.children.append(n)
        lines += ["struct Cc:", "  0 [+1]  UInt  x"]
    outer = Node("Outer", "struct", (M, "Outer"))
    mod.children.append(outer)
    lines.append("struct Outer(p: Int:8):")
    nested_aa = None
    if cfg["n_aa"]:
        nested_aa, t = struct_aa((M, "Outer", "Aa"), "  ")
        outer.children.append(nested_aa)
        lines += t
    if cfg["n_bb"]:
        n, t = enum_bb((M, "Outer", "Bb"), "  ", 3)
        outer.children.append(n)
        lines += t
    if cfg["n_uint"]:
        n = Node("UInt", "struct", (M, "Outer", "UInt"))
        n.children = [Node("x", "field", (M, "Outer", "UInt", "x"), vis="local")]
        outer.children.append(n)
        lines += ["  struct UInt:", "    0 [+1]  Int  x"]
    if cfg["n_outer"]:
        n = Node("Outer", "struct", (M, "Outer", "Outer"))
        n.children = [Node("x", "field", (M, "Outer", "Outer", "x"), vis="local")]
        outer.children.append(n)
        lines += ["  struct Outer:", "    0 [+1]  Int  x"]
    if cfg["n_cc"]:
        n = Node("Cc", "struct", (M, "Outer", "Cc"))
        n.children = [Node("x", "field", (M, "Outer", "Cc", "x"), vis="local")]
        outer.children.append(n)
        lines += ["  struct Cc:", "    0 [+1]  Int  x"]
    outer.children += [Node("p", "param", (M, "Outer", "p"), vis="local"),
                       Node("x", "field", (M, "Outer", "x"), vis="local"), Node("xa", "abbrev", (M, "Outer", "x"), vis="private"),
                       Node("y", "field", (M, "Outer", "y"), vis="local", ftype=iaa),
                       Node("ya", "field", (M, "Outer", "ya"), vis="local", ftype=iaa)]
    lines += ["  0 [+1]  Int  x (xa)", "    [requires: this < 100]", "  1 [+1]  im.Aa  y", "  4 [+p]  Int:8[]  tail", "  let ya = y",
              # an anonymous bits block whose own condition uses the abbreviation of one of its members
              "  3 [+1]  bits:", "    0 [+4]  Int  nib (nb)", "    if nb > 2:", "      4 [+1]  Flag  big"]
    outer.children += [Node("nib", "field", (M, "Outer", "nib"), vis="local"), Node("nb", "abbrev", (M, "Outer", "nib"), vis="private"),
                       Node("big", "field", (M, "Outer", "big"), vis="local")]
    dd = Node("Dd", "struct", (M, "Dd"))
    dd.children = [Node("z", "field", (M, "Dd", "z"), vis="local"), Node("o", "field", (M, "Dd", "o"), vis="local", ftype=outer),
                   Node("im", "field", (M, "Dd", "im"), vis="local"),
                   Node("oy", "field", (M, "Dd", "oy"), vis="local", ftype=iaa)]
    mod.children.append(dd)
    return lines, mod, outer, nested_aa, dd


def members(node):
    """Names visible after a dot on this entity."""
    if node.kind == "alias":
        return [c for c in node.target.children]
    if node.kind in ("struct", "enum", "module"):
        return [c for c in node.children if c.vis != "private"]
    if node.kind == "field":
        if node.ftype is None:
            return None          # noncomposite
        # only fields (and virtual fields) are members of a field; the parameters of its type are not reachable
        return [c for c in node.ftype.children if c.vis == "local" and c.kind != "param"]
    return None


def resolve(mod, scope_chain, parts):
    """scope_chain: [innermost type node, ..., outermost type node].  Returns canonical path tuple, or an error word."""
    head = parts[0]
    cands = []
    for i, sc in enumerate(scope_chain):
        for c in sc.children:
            if c.name != head:
                continue
            if i == 0 or c.vis == "type":
                cands.append(c)
    for c in mod.children:
        if c.name == head and (c.vis == "type" or c.kind == "alias"):
            cands.append(c)
    if head in PRELUDE_TYPES:
        cands.append(Node(head, "prelude", ("", head)))
    # the same node may be reachable twice (own scope is also an enclosing scope member): de-duplicate by identity
    uniq = []
    for c in cands:
        if not any(c is u for u in uniq):
            uniq.append(c)
    if not uniq:
        return "missing"
    if len(uniq) > 1:
        return "ambiguous"
    cur = uniq[0]
    for name in parts[1:]:
        ms = members(cur)
        if ms is None:
            return "no-members"
        found = [c for c in ms if c.name == name]
        if not found:
            return "missing"
        if len(found) > 1:
            return "ambiguous"
        cur = found[0]
    return cur


def bounds(tier):
    return {"top_flags": TOP_FLAGS, "nest_flags": NEST_FLAGS, "type_probes": len(TYPE_PROBES), "value_probes": len(VALUE_PROBES)}


def gen_cases(tier):
    flags = TOP_FLAGS + NEST_FLAGS
    combos = []
    for bits in itertools.product((0, 1), repeat=len(flags)):
        if tier == "quick" and sum(bits) > 3:
            continue
        combos.append(dict(zip(flags, bits)))
    for cfg in combos:
        yield {"cfg": cfg}


def module_for(cfg, probe, site, is_type):
    lines, mod, outer, nested_aa, dd = build(cfg)
    lines = list(lines)
    chain = None
    probe_line = None
    parts = probe.split(".")
    ptext = probe
    if is_type:
        r0 = resolve(mod, {"outer_field": [outer], "dd_field": [dd], "nested_field": [nested_aa, outer] if nested_aa else [outer]}[site], parts)
        if not isinstance(r0, str) and r0.path == ("m.emb", "Outer"):
            ptext = probe + "(1)"           # the top-level Outer takes one parameter
    if is_type:
        if site == "outer_field":
            lines.append("  2 [+1]  %s  probe" % ptext)
            chain = [outer]
        elif site == "nested_field":
            if nested_aa is None:
                return None
            # insert into the nested Aa body (after its `let k` line)
            idx = lines.index("    let k = 4") + 1 if "    let k = 4" in lines else None
            if idx is None:
                return None
            lines.insert(idx, "    1 [+1]  %s  probe" % ptext)
            chain = [nested_aa, outer]
        elif site == "dd_field":
            pass
        probe_text = None
    # Dd also has a field spelled like the import alias: inside Dd the bare name `im` is visible from two scopes
    lines_dd = ["struct Dd:", "  0 [+1]  UInt  z", "  1 [+8]  Outer(z)  o", "  let oy = o.y", "  10 [+1]  UInt  im"]
    if is_type and site == "dd_field":
        lines_dd.append("  9 [+1]  %s  probe" % ptext)
        chain = [dd]
    if not is_type:
        if site == "outer_let":
            lines.append("  let probe = %s" % probe)
            chain = [outer]
        elif site == "nested_let":
            if nested_aa is None or "    let k = 4" not in lines:
                return None
            lines.insert(lines.index("    let k = 4") + 1, "    let probe = %s" % probe)
            chain = [nested_aa, outer]
        elif site == "dd_let":
            lines_dd.append("  let probe = %s" % probe)
            chain = [dd]
        elif site == "outer_sreq":
            k = lines.index("struct Outer(p: Int:8):")
            lines.insert(k + 1, "  [requires: %s == %s]" % (probe, probe))
            chain = [outer]
        elif site == "enum_value":
            lines_dd += ["enum Probe:", "  PV = %s" % probe]
            pe = Node("Probe", "enum", ("m.emb", "Probe"))
            pe.children = [Node("PV", "value", ("m.emb", "Probe", "PV"), vis="local")]
            mod.children.append(pe)
            chain = [pe]
    src = "\n".join(lines + lines_dd) + "\n"
    return src, mod, chain, parts


def expected_for(mod, chain, parts, is_type, site):
    r = resolve(mod, chain, parts)
    if isinstance(r, str):
        return "error", r
    kind = r.kind
    if is_type:
        if kind in ("struct", "enum", "prelude"):
            return "ok", r
        return "error", "not-a-type"
    # value positions
    if kind in ("field", "abbrev", "param", "value", "const"):
        if kind in ("field", "abbrev", "param") and len(parts) > 1 and parts[0] in ("Outer", "Aa", "Cc", "im") and r.kind in ("field", "param"):
            return "error", "static-ref-to-physical"       # Type.field on a physical field or parameter: not allowed
        return "ok", r
    return "error", "not-a-value"


def canon_names_on_line(e, ir, line):
    found = []

    def grab(ref):
        loc = ref.source_location
        if loc and loc.start.line == line and not loc.is_synthetic and ref.canonical_name:
            found.append((ref.canonical_name.module_file, tuple(ref.canonical_name.object_path)))
    e.traverse_ir.fast_traverse_ir_top_down(ir, [e.ir_data.Reference], grab)
    return found


def check_definitions(e, ir):
    names = []

    def grab(nd):
        if nd.canonical_name and nd.canonical_name.object_path:
            names.append((nd.canonical_name.module_file, tuple(nd.canonical_name.object_path), nd))
    e.traverse_ir.fast_traverse_ir_top_down(ir, [e.ir_data.NameDefinition], grab)
    seen = {}
    for mf, path, nd in names:
        if nd.is_anonymous:
            continue
        key = (mf, path)
        if key in seen and seen[key] is not nd:
            return "duplicate canonical name %r" % (key,)
        seen[key] = nd
    for (mf, path), nd in list(seen.items())[:40]:
        try:
            obj = e.ir_util.find_object(nd.canonical_name, ir)
        except Exception as ex:  # noqa
            return "find_object(%r) raised %r" % ((mf, path), ex)
        got = getattr(obj, "name", None)
        if got is None or (got.canonical_name.module_file, tuple(got.canonical_name.object_path)) != (mf, path):
            return "find_object(%r) does not lead back to the definition" % ((mf, path),)
    return None


def check_case(case):
    e = common.emb()
    cfg = case["cfg"]
    viol, nt = [], []
    stats = {"probes": 0, "expected_ok": 0, "expected_error": 0}
    todo = [(p, s, True) for p in TYPE_PROBES for s in SITES_TYPE] + [(p, s, False) for p in VALUE_PROBES for s in SITES_VALUE]
    if "only" in case:
        todo = [tuple(case["only"])]
    for probe, site, is_type in todo:
        built = module_for(cfg, probe, site, is_type)
        if built is None:
            continue
        src, mod, chain, parts = built
        want, target = expected_for(mod, chain, parts, is_type, site)
        if want == "ok" and is_type and site == "nested_field" and target.path == ("m.emb", "Outer", "Aa"):
            continue          # a type containing itself: rejected for its size, not for its name
        stats["probes"] += 1
        stats["expected_" + want] += 1
        label = "%s probe=%s site=%s" % (json.dumps({k: v for k, v in cfg.items() if v}), probe, site)
        files = {"m.emb": src, "imp.emb": IMP}
        ir, errors, ex = common.front_end(files, "m.emb", keep_cache=False)
        sub = {"cfg": cfg, "only": [probe, site, is_type]}
        if ex is not None:
            viol.append({"key": common.exc_key(ex), "msg": "%s: %r" % (label, ex), "detail": {"files": files}, "subcase": sub})
            continue
        if site == "outer_sreq":
            line = next(i + 1 for i, l in enumerate(src.split("\n")) if l.startswith("  [requires:"))
        else:
            line = next(i + 1 for i, l in enumerate(src.split("\n")) if "probe" in l or "PV =" in l)
        if want == "error":
            if not errors:
                viol.append({"key": "unresolvable-name-accepted:" + target, "msg": "%s: expected %s, module accepted" % (label, target),
                             "detail": {"files": files}, "subcase": sub})
            elif target in ("missing", "ambiguous"):
                msg = errors[0][0].message
                ok_msg = ("No candidate" in msg) if target == "missing" else ("Ambiguous name" in msg)
                if not ok_msg and errors[0][0].location.start.line == line:
                    viol.append({"key": "wrong-error-class:" + target, "msg": "%s: expected %s, got %r" % (label, target, msg[:100]),
                                 "detail": {"files": files}, "subcase": sub})
            if isinstance(target, str) and target != "missing" or True:
                nt.append(label)
            continue
        # expected to resolve
        if errors:
            viol.append({"key": "resolvable-name-rejected", "msg": "%s: %s" % (label, common.first_error_text(errors)),
                         "detail": {"files": files}, "subcase": sub})
            continue
        nt.append(label)
        names = canon_names_on_line(e, ir, line)
        tgt = (target.path[0] if target.kind != "prelude" else "", tuple(target.path[1:]))
        if tgt not in names:
            viol.append({"key": "resolved-to-wrong-definition", "msg": "%s: expected %r, references on the line resolve to %r" % (
                label, tgt, sorted(set(names))), "detail": {"files": files}, "subcase": sub})
            continue
        bad = check_definitions(e, ir)
        if bad:
            viol.append({"key": "canonical-names", "msg": "%s: %s" % (label, bad), "detail": {"files": files}, "subcase": sub})
    seen, keep = {}, []
    for v in viol:
        seen[v["key"]] = seen.get(v["key"], 0) + 1
        if seen[v["key"]] <= 4:
            keep.append(v)
    return {"viol": keep, "n": stats["probes"], "nt": nt, "stats": stats}


def sample_of(case):
    built = module_for(case["cfg"], "Aa", "outer_field", True)
    return {"cfg": case["cfg"], "probe": "Aa at outer_field", "emb": built[0] if built else None, "imp": IMP}
