"""C02 -- scalar fields decode with the documented byte order, bit numbering and format.
Every (offset, width) of every scalar kind in bits containers of 8..64 bits under both
byte orders, and every byte offset/size in a struct on bases of every alignment, read
through the generated views and compared with cpp/ref_bits.h (one bit at a time)."""
import os
import re

from vk import common, cppdrv, scalars

PROPERTY = "C02"
LEVEL = "exploration"
MODE = "read"
RULE = ("all (offset o, width w), o+w<=c, for c in {8,16,24,64} (quick) / 8..64 step 8 (thorough) x {LE,BE} x "
        "{UInt,Int,Bcd,unsigned enum,signed enum,Flag(w=1),Float(w=32,64)}; byte-level fields at byte offsets 0..8, "
        "sizes 1..8 on bases misaligned by 0..7 incl. aligned views; contents: all 2^c for c<=16, else per field all 2^w "
        "patterns (w<=12) or a boundary alphabet x 3 surroundings, Bcd nibble alphabets; oracle = naive bit reader. "
        "Non-trivial = (kind, order, c, o, w) whose reads produced >=2 distinct values.")
ASSUMPTIONS = ["cpp/ref_bits.h is the reference (one bit at a time, from the two pictures in the language reference)",
               "x86-64 little-endian host; g++ -O1", "containers wider than 16 bits are explored on pattern alphabets"]
TIMEOUT = 3000


def bounds(tier):
    return {"containers": [8, 16, 24, 64] if tier == "quick" else [8, 16, 24, 32, 40, 48, 56, 64],
            "no_optimizations_build": tier != "quick"}


def gen_cases(tier):
    b = bounds(tier)
    for c in b["containers"]:
        for order in ("LittleEndian", "BigEndian"):
            for kind in scalars.KINDS:
                if kind == "Float" and c < 32:
                    continue
                yield {"layout": "bits", "c": c, "order": order, "kind": kind, "flags": []}
                if tier != "quick" and c in (8, 32, 64):
                    yield {"layout": "bits", "c": c, "order": order, "kind": kind, "flags": ["-DEMBOSS_NO_OPTIMIZATIONS"]}
    for order in ("LittleEndian", "BigEndian"):
        for kind in scalars.KINDS:
            if kind == "Flag":
                continue
            yield {"layout": "bytes", "c": 0, "order": order, "kind": kind, "flags": []}
            if tier != "quick":
                yield {"layout": "bytes", "c": 0, "order": order, "kind": kind, "flags": ["-DEMBOSS_NO_OPTIMIZATIONS"]}


def run_config(case, mode):
    bytes_mode = case["layout"] == "bytes"
    if bytes_mode:
        src = scalars.emb_bytes(case["kind"], case["order"])
    else:
        src = scalars.emb_bits(case["kind"], case["c"], case["order"])
    label = "%s/%s/c%d/%s%s" % (case["layout"], case["kind"], case["c"], case["order"], "".join(case["flags"]))
    headers, err, ex = cppdrv.compile_headers({"m.emb": src}, "m.emb")
    if ex is not None:
        return {"viol": [{"key": common.exc_key(ex), "msg": "%s: %r" % (label, ex)}], "n": 1}
    if err:
        return {"viol": [{"key": "layout-rejected", "msg": "%s: %s" % (label, err)}], "n": 1}
    drv = scalars.driver(case["kind"], case["c"], case["order"], bytes_mode)
    with cppdrv.Scratch() as sc:
        flags = ["-O1", "-I", os.path.join(common.VERIF, "cpp")] + case["flags"]
        res = cppdrv.build_and_run(sc, headers, "m.emb.h", drv, flags=flags, run=False)
        if res["compile_rc"] != 0:
            return {"viol": [{"key": "header-does-not-compile", "msg": "%s: %s" % (label, res["compile_err"][-800:])}], "n": 1}
        import subprocess
        rr = subprocess.run([sc.path("drv.bin"), mode], capture_output=True, text=True, timeout=2400)
    viol = []
    if rr.returncode != 0:
        return {"viol": [{"key": "driver-crashed", "msg": "%s rc=%d %s" % (label, rr.returncode, rr.stderr[-500:])}], "n": 1}
    m = re.search(r"SUMMARY reads=(\d+) writes=(\d+) states=(\d+) mism=(\d+) fields=(\d+) varied=(\d+)", rr.stdout)
    if not m:
        return {"internal": "no summary from driver: " + rr.stdout[-500:]}
    reads, writes, states, mism, nfields, varied = map(int, m.groups())
    for line in rr.stdout.split("\n"):
        if line.startswith("MISMATCH"):
            parts = line.split(" ", 3)
            key = "scalar-" + parts[1]
            if case["kind"] == "SEnum" and case["c"] != 0 and not line.split(" ")[2].endswith("_64"):
                key = "signed-enum-narrow"
            elif case["kind"] == "SEnum" and case["c"] == 0 and not line.split(" ")[2].endswith("_8"):
                key = "signed-enum-narrow"
            viol.append({"key": key, "msg": "%s: %s" % (label, line), "detail": {"emb_head": src[:300], "config": case}})
    out = []
    seen = {}
    for v in viol:
        seen[v["key"]] = seen.get(v["key"], 0) + 1
        if seen[v["key"]] <= 3:
            out.append(v)
    n = reads if mode == "read" else writes
    nt = ["%s/%d" % (label, i) for i in range(varied if mode == "read" else nfields)]
    return {"viol": out, "n": n, "nt": nt, "states": states, "transitions": writes, "traces": writes,
            "stats": {"configs": 1, "fields": nfields, "mismatches": mism, "reads": reads, "writes": writes}}


def check_case(case):
    return run_config(case, MODE)


def sample_of(case):
    bytes_mode = case["layout"] == "bytes"
    src = scalars.emb_bytes(case["kind"], case["order"]) if bytes_mode else scalars.emb_bits(case["kind"], case["c"], case["order"])
    return {"config": case, "emb_first_lines": src.split("\n")[:12]}
