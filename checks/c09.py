"""C09 -- the shipped (cached) parser tables are the parser of the documented
grammar.  Explicit-state: product automaton of cached vs freshly generated
tables explored from (0,0); every reachable pair must agree on every terminal
(action kind, production, error code incl. default errors) and every goto."""
import glob
import os
import re

from vk import common, grammardoc

PROPERTY = "C09"
LEVEL = "model_checking"
RULE = ("product automaton (cached tables x tables regenerated from module_ir.PRODUCTIONS + error_examples) "
        "explored exhaustively from (0,0) for both start symbols; every terminal+end-of-input compared in every "
        "reachable pair; doc/grammar.md productions and token table compared with the source; corpus and "
        "single-token mutants replayed through both parsers")
ASSUMPTIONS = ["lr1.Parser.parse is driven only by action/goto/default_errors (read from its source)",
               "make_parser.build_*_parser is the reference generator (its correctness is C08's subject)"]
EXHAUSTIVE = True
TIMEOUT = 1200

_G = {}


def setup(tier):
    e = common.emb()
    from compiler.front_end import make_parser
    from compiler.front_end.generated import cached_parser
    from compiler.front_end import parser as parser_mod
    _G["fresh_module"] = make_parser.build_module_parser()
    _G["fresh_expression"] = make_parser.build_expression_parser()
    _G["cached_module"] = cached_parser.module_parser()
    _G["cached_expression"] = cached_parser.expression_parser()
    _G["used_module"] = parser_mod.module_parser()
    _G["used_expression"] = parser_mod._load_expression_parser().parser
    _G["mismatch"] = (parser_mod.module_parser_cache_mismatch(),
                      parser_mod._load_expression_parser().cache_mismatch)


def bounds(tier):
    return {"start_symbols": ["module", "expression"], "replay_mutants": tier}


def gen_cases(tier):
    yield {"kind": "product", "which": "module"}
    yield {"kind": "product", "which": "expression"}
    yield {"kind": "doc"}
    files = sorted(glob.glob(os.path.join(common.REPO, "testdata", "*.emb")) +
                   glob.glob(os.path.join(common.REPO, "testdata", "format", "*.emb")))
    files = [os.path.relpath(f, common.REPO) for f in files]
    if tier == "quick":
        files = [f for f in files if os.path.getsize(os.path.join(common.REPO, f)) < 6000]
    for f in files:
        yield {"kind": "replay", "file": f, "positions": 40 if tier == "quick" else 200}
    yield {"kind": "replay-error-examples"}


def _row(parser, state, term):
    e = common.emb()
    row = parser.action.get(state, {})
    if term in row:
        return row[term]
    if state in parser.default_errors:
        return e.lr1.Error(parser.default_errors[state])
    return e.lr1.Error(None)


def product(which):
    e = common.emb()
    lr1 = e.lr1
    a, b = _G["cached_" + which], _G["fresh_" + which]
    viol = []
    terms = set(b.terminals) | {lr1.END_OF_INPUT}
    for st, row in a.action.items():
        terms |= set(row)
    for st, row in b.action.items():
        terms |= set(row)          # explicit Error entries for tokenizer-only symbols (BadWord, ...) live only in rows
    terms = sorted(terms, key=str)
    nonterms = sorted(set(b.nonterminals), key=str)
    seen = {(0, 0)}
    todo = [(0, 0)]
    compared = 0
    a_to_b, b_to_a = {0: {0}}, {0: {0}}
    while todo and len(viol) < 10:
        sa, sb = todo.pop()
        nxt = []
        for t in terms:
            xa, xb = _row(a, sa, t), _row(b, sb, t)
            compared += 1
            ka, kb = type(xa).__name__, type(xb).__name__
            if ka != kb:
                viol.append({"key": "action-kind-differs", "msg": "%s state %d/%d on %s: %s vs %s" % (which, sa, sb, t, ka, kb)})
                continue
            if ka == "Shift":
                nxt.append((xa.state, xb.state))
            elif ka == "Reduce":
                if xa.rule != xb.rule:
                    viol.append({"key": "reduce-differs", "msg": "%s state %d/%d on %s: %s vs %s" % (which, sa, sb, t, xa.rule, xb.rule)})
            elif ka == "Error":
                if xa.code != xb.code:
                    viol.append({"key": "error-code-differs", "msg": "%s state %d/%d on %s: %r vs %r" % (which, sa, sb, t, xa.code, xb.code)})
        # expected_tokens sets (explicit non-Error entries)
        ea = {k for k, v in a.action.get(sa, {}).items() if not isinstance(v, lr1.Error)}
        eb = {k for k, v in b.action.get(sb, {}).items() if not isinstance(v, lr1.Error)}
        if ea != eb:
            viol.append({"key": "expected-set-differs", "msg": "%s state %d/%d" % (which, sa, sb)})
        ga, gb = a.goto.get(sa, {}), b.goto.get(sb, {})
        for n in set(ga) | set(gb):
            compared += 1
            if n not in ga or n not in gb:
                viol.append({"key": "goto-missing", "msg": "%s state %d/%d nonterminal %s" % (which, sa, sb, n)})
                continue
            nxt.append((ga[n], gb[n]))
        for p in nxt:
            if p not in seen:
                seen.add(p)
                todo.append(p)
                a_to_b.setdefault(p[0], set()).add(p[1])
                b_to_a.setdefault(p[1], set()).add(p[0])
    bij = all(len(v) == 1 for v in a_to_b.values()) and all(len(v) == 1 for v in b_to_a.values())
    # productions and bookkeeping
    if set(a.productions) != set(b.productions):
        viol.append({"key": "production-set-differs", "msg": which})
    if a.conflicts or b.conflicts:
        viol.append({"key": "conflicts", "msg": which})
    used = _G["used_" + which]
    if used.action is not a.action and used.action != a.action:
        viol.append({"key": "loaded-parser-not-cached", "msg": which + ": parser.py fell back to regeneration"})
    stats = {"pairs_" + which: len(seen), "bijection_" + which: int(bij),
             "cached_states_" + which: len(a.action), "fresh_states_" + which: len(b.item_sets),
             "unreached_cached_" + which: len(set(a.action) - set(a_to_b)),
             "unreached_fresh_" + which: len(b.item_sets) - len(b_to_a)}
    return {"viol": viol, "n": compared, "states": len(seen), "transitions": compared,
            "nt": ["%s:%d" % (which, i) for i in range(min(len(seen), 50))], "stats": stats}


def doc_check():
    e = common.emb()
    from compiler.front_end import tokenizer
    viol = []
    d = grammardoc.read()
    P = set((p.lhs, tuple(p.rhs)) for p in e.module_ir.PRODUCTIONS)
    D = d["productions"]
    if len(D) != len(set(D)):
        viol.append({"key": "doc-duplicate-production", "msg": ""})
    if set(D) != P:
        viol.append({"key": "doc-productions-differ",
                     "msg": "only in source: %s; only in doc: %s" % (sorted(P - set(D))[:3], sorted(set(D) - P)[:3])})
    if d["lhs_order"][0] != e.module_ir.START_SYMBOL:
        viol.append({"key": "doc-start-symbol", "msg": d["lhs_order"][0]})
    for which in ("module", "expression"):
        c = _G["cached_" + which]
        start = e.module_ir.START_SYMBOL if which == "module" else e.module_ir.EXPRESSION_START_SYMBOL
        want = P | {(e.lr1.START_PRIME, (start,))}
        got = set((p.lhs, tuple(p.rhs)) for p in c.productions)
        if want != got:
            viol.append({"key": "cached-productions-differ", "msg": which})
    for i, m in enumerate(_G["mismatch"]):
        if m != (set(), set()):
            viol.append({"key": "cache-mismatch-reported", "msg": repr(m)[:300]})
    toks = d["tokens"]
    nlit = len(tokenizer.LITERAL_TOKEN_PATTERNS)
    want = [(re.escape(l), '"' + l + '"') for l in tokenizer.LITERAL_TOKEN_PATTERNS]
    got_lit = [(re.sub(r"\\(.)", r"\1", p), s) for p, s in toks[:nlit]]
    if got_lit != [(l, '"' + l + '"') for l in tokenizer.LITERAL_TOKEN_PATTERNS]:
        viol.append({"key": "doc-literal-tokens-differ", "msg": ""})
    want_re = [(p.regex.pattern, p.symbol) for p in tokenizer.REGEX_TOKEN_PATTERNS]
    if toks[nlit:] != want_re:
        viol.append({"key": "doc-regex-tokens-differ",
                     "msg": repr([x for x in zip(toks[nlit:], want_re) if x[0] != x[1]][:2])})
    return {"viol": viol, "n": len(D) + len(toks), "nt": ["doc-productions", "doc-tokens"],
            "states": 0, "transitions": 0}


def _same_result(ra, rb):
    if (ra.error is None) != (rb.error is None):
        return False
    if ra.error is None:
        return ra.parse_tree == rb.parse_tree
    ea, eb = ra.error, rb.error
    return (ea.code, ea.index, ea.token, ea.expected_tokens) == (eb.code, eb.index, eb.token, eb.expected_tokens)


def replay(tokens_list, which, label):
    a, b = _G["cached_" + which], _G["fresh_" + which]
    viol = []
    n = 0
    for toks in tokens_list:
        n += 1
        ra, rb = a.parse(toks), b.parse(toks)
        if not _same_result(ra, rb):
            viol.append({"key": "replay-differs", "msg": "%s: %s" % (label, " ".join(str(t.symbol) for t in toks)[:400])})
            if len(viol) > 3:
                break
    return viol, n


def check_case(case):
    e = common.emb()
    if case["kind"] == "product":
        return product(case["which"])
    if case["kind"] == "doc":
        return doc_check()
    if case["kind"] == "replay":
        text = open(os.path.join(common.REPO, case["file"]), encoding="utf-8").read()
        tokens, errs = e.tokenizer.tokenize(text, case["file"])
        if errs:
            return {"n": 0}
        alphabet = [e.parser_types.Token(s, s, None) for s in
                    ('"struct"', 'SnakeWord', 'Number', '"["', '"]"', '":"', 'Indent', 'Dedent', '"\\n"',
                     'CamelWord', '"+"', '"("', 'Documentation', '"let"')]
        muts = [tokens]
        step = max(1, len(tokens) // case.get("positions", 40))
        for i in range(0, len(tokens), step):
            muts.append(tokens[:i] + tokens[i + 1:])          # deletion
            muts.append(tokens[:i])                            # truncation
            muts.append(tokens[:i] + [alphabet[i % len(alphabet)]] + tokens[i:])   # insertion
        viol, n = replay(muts, "module", case["file"])
        return {"viol": viol, "n": n, "traces": n, "nt": [case["file"]]}
    if case["kind"] == "replay-error-examples":
        from compiler.front_end import make_parser
        from compiler.util import resources
        ex = make_parser.parse_error_examples(resources.load("compiler.front_end", "error_examples"))
        toks = []
        for tokens, err_tok, msg, text in ex:
            toks.append([t for t in tokens])
        viol, n = replay(toks, "module", "error_examples")
        # every example must produce its message through the cached parser
        a = _G["cached_module"]
        for tokens, err_tok, msg, text in ex:
            r = a.parse(tokens)
            if r.error is None or r.error.code != msg:
                viol.append({"key": "error-example-message", "msg": "%r -> %r" % (msg[:60], r.error and r.error.code)})
        return {"viol": viol[:5], "n": n, "traces": n, "nt": ["error-examples"]}


def sample_of(case):
    return case
