"""C10 -- tokenization is lossless, position-accurate and classifies as documented.
Exhaustive over short strings on a boundary alphabet, over all short indentation
sequences (explicit-state over the open-indentation stack), over numeric/name
shapes and over all line terminators; oracle = tokenizer rebuilt from the
pattern table in doc/grammar.md + indentation model + prose classifier."""
import itertools

from vk import common, tokref

PROPERTY = "C10"
LEVEL = "model_checking"
RULE = ("all single-line strings up to a length bound over a 22-character boundary alphabet (and a 16-character "
        "sub-alphabet one longer), all strings <=2/3 over printable ASCII, every literal/pattern example extended by "
        "every character, all <=4/5-line indentation sequences over 6 leading-whitespace strings x 3 contents, all "
        "<=9-character numeric shapes over {0,1,_} x 5 prefixes, all <=5-character name shapes over {a,A,_,1}, all 11 "
        "line terminators between all token pairs; oracle = doc-derived reference tokenizer + direct invariants. "
        "Non-trivial = text yielding >=2 tokens or an error; distinct by text.")
ASSUMPTIONS = ["vk/tokref.py (reference tokenizer from doc/grammar.md table; indentation model; prose classifier)",
               "newline tokens of whitespace-only lines are not compared (property speaks of non-blank lines)",
               "when one line has both an unrecognized token and bad indentation either report is accepted"]
TIMEOUT = 3000

A22 = list("aA_019xbf$- #\"\\=<&.:[") + ["é"]
A16 = list("aA_01xb$- #\"=.:") + ["é"]
WS = ["", " ", "  ", "   ", "\t", " \t"]
CONTENT = ["a", "#c", ""]
PRINTABLE = [chr(c) for c in range(32, 127)]
NUMPREF = ["", "0x", "0b", "0X", "0B"]
TOK6 = ["a", "1", '"s"', "#c", "-- d", "+"]
TERMS = tokref.TERMINATORS

_R = {}


def bounds(tier):
    if tier == "quick":
        return {"A22_len": 5, "A16_len": 5, "ascii_len": 2, "indent_lines": 4, "numeric_len": 9, "name_len": 5}
    return {"A22_len": 6, "A16_len": 6, "ascii_len": 3, "indent_lines": 5, "numeric_len": 11, "name_len": 7}


def gen_cases(tier):
    b = bounds(tier)
    for n in range(0, b["A22_len"]):
        yield {"kind": "lines", "alpha": "A22", "n": n, "prefix": ""}
    for c in range(len(A22)):
        for c2 in (range(len(A22)) if b["A22_len"] >= 5 else [None]):
            if b["A22_len"] >= 6:
                for c3 in range(len(A22)):
                    yield {"kind": "lines", "alpha": "A22", "n": b["A22_len"], "prefix": [c, c2, c3]}
                continue
            yield {"kind": "lines", "alpha": "A22", "n": b["A22_len"], "prefix": [c] if c2 is None else [c, c2]}
    for c in range(len(A16)):
        for c2 in range(len(A16)):
            yield {"kind": "lines", "alpha": "A16", "n": b["A16_len"], "prefix": [c, c2]}
    for n in range(0, b["ascii_len"]):
        yield {"kind": "lines", "alpha": "ASCII", "n": n, "prefix": ""}
    for c in range(len(PRINTABLE)):
        yield {"kind": "lines", "alpha": "ASCII", "n": b["ascii_len"], "prefix": [c]}
    yield {"kind": "extend"}
    for first in range(len(WS) * len(CONTENT)):
        yield {"kind": "indent", "first": first, "max": b["indent_lines"]}
    for p in range(len(NUMPREF)):
        for c in "01_":
            yield {"kind": "numeric", "prefix": p, "first": c, "max": b["numeric_len"]}
    yield {"kind": "names", "max": b["name_len"]}
    for t in range(len(TERMS)):
        yield {"kind": "terminators", "term": t}


def _ref():
    if "ref" not in _R:
        _R["ref"] = tokref.RefTokenizer()
        _R["tok"] = common.emb().tokenizer
    return _R["ref"], _R["tok"]


def check_text(text, stats=None):
    """Returns a violation dict or None."""
    ref, tok = _ref()
    tokens, errors = tok.tokenize(text, "f")
    kind, want = ref.tokenize(text)
    lines = tokref.split_lines(text)
    if errors:
        if kind != "error":
            return {"key": "spurious-error", "msg": "%r: tokenizer reported %r, reference tokenizes" % (text, errors[0][0].message)}
        m = errors[0][0]
        loc = m.location
        got = (m.message, (loc.start.line, loc.start.column, loc.end.line, loc.end.column))
        if got not in want:
            return {"key": "error-mismatch", "msg": "%r: got %r want one of %r" % (text, got, sorted(want))}
        if len(errors) != 1 or len(errors[0]) != 1 or m.source_file != "f":
            return {"key": "error-shape", "msg": repr(text)}
        return None
    if kind == "error":
        return {"key": "missed-error", "msg": "%r: reference reports %r" % (text, sorted(want))}
    got = []
    for t in tokens:
        l = t.source_location
        got.append((t.symbol, t.text, (l.start.line, l.start.column, l.end.line, l.end.column)))
    blank = {i + 1 for i, ln in enumerate(lines) if not ln.strip()}
    g2 = [t for t in got if not (t[0] == '"\\n"' and t[2][0] in blank)]
    w2 = [t for t in want if not (t[0] == '"\\n"' and t[2][0] in blank)]
    if g2 != w2:
        k = 0
        while k < min(len(g2), len(w2)) and g2[k] == w2[k]:
            k += 1
        return {"key": "token-mismatch", "msg": "%r: token %d got %r want %r" % (
            text, k, g2[k] if k < len(g2) else None, w2[k] if k < len(w2) else None)}
    # direct invariants on the real output
    depth = 0
    per_line = {}
    for sym, txt, (l1, c1, l2, c2) in got:
        if sym == "Indent":
            depth += 1
        elif sym == "Dedent":
            depth -= 1
            if depth < 0:
                return {"key": "indent-balance", "msg": repr(text)}
            continue
        if sym == '"\\n"':
            per_line.setdefault(l1, []).append(None)
            if (c1, c2) != (len(lines[l1 - 1]) + 1,) * 2 or l1 != l2:
                return {"key": "newline-position", "msg": repr(text)}
            continue
        if l1 != l2 or l1 < 1 or l1 > len(lines) or lines[l1 - 1][c1 - 1:c2 - 1] != txt:
            return {"key": "slice-mismatch", "msg": "%r: token %r at %r" % (text, txt, (l1, c1, l2, c2))}
        if sym != "Indent":
            per_line.setdefault(l1, []).append((c1, c2))
    if depth != 0:
        return {"key": "indent-balance", "msg": repr(text)}
    for ln, line in enumerate(lines, 1):
        spans = per_line.get(ln, [])
        nl = [s for s in spans if s is None]
        if line.strip() and len(nl) != 1:
            return {"key": "newline-count", "msg": repr(text)}
        pos = 0
        for s in spans:
            if s is None:
                continue
            if s[0] - 1 < pos or line[pos:s[0] - 1].strip():
                return {"key": "gap-not-whitespace", "msg": "%r line %d" % (text, ln)}
            pos = s[1] - 1
        if line[pos:].strip():
            return {"key": "gap-not-whitespace", "msg": "%r line %d tail" % (text, ln)}
    if stats is not None and len(got) >= 3:
        stats["multi"] = stats.get("multi", 0) + 1
    return None


def _run(texts, label):
    viol = []
    n = nt = 0
    stats = {}
    for text in texts:
        n += 1
        v = check_text(text, stats)
        if v:
            v["detail"] = {"text": text}
            v["subcase"] = {"kind": "text", "text": text}
            viol.append(v)
            if len(viol) >= 20:
                break
    return viol, n, stats.get("multi", 0)


def check_case(case):
    k = case["kind"]
    if k == "text":
        v = check_text(case["text"])
        return {"viol": [v] if v else [], "n": 1}
    if k == "lines":
        alpha = {"A22": A22, "A16": A16, "ASCII": PRINTABLE}[case["alpha"]]
        pre = "".join(alpha[i] for i in case["prefix"])
        rest = case["n"] - len(case["prefix"])
        texts = (pre + "".join(t) for t in itertools.product(alpha, repeat=rest))
        viol, n, multi = _run(texts, k)
        return {"viol": viol, "n": n, "traces": n, "nt": ["%s/%d/%s:%d" % (case["alpha"], case["n"], pre, multi)] * (1 if multi else 0),
                "stats": {"texts": n, "multi_token_texts": multi}}
    if k == "extend":
        ref, tok = _ref()
        seeds = list(tok.LITERAL_TOKEN_PATTERNS) + [p.example for p in tok.REGEX_TOKEN_PATTERNS]
        texts = []
        for s in seeds:
            for c in PRINTABLE + ["é", "\t"]:
                texts.append(s + c)
                texts.append(c + s)
            for s2 in seeds:
                texts.append(s + s2)
                texts.append(s + " " + s2)
        viol, n, multi = _run(texts, k)
        return {"viol": viol, "n": n, "traces": n, "nt": ["extend"], "stats": {"texts": n, "multi_token_texts": multi}}
    if k == "indent":
        kinds = [w + c for w in WS for c in CONTENT]
        viol = []
        n = 0
        states = set()
        transitions = 0
        first = kinds[case["first"]]
        for total in range(1, case["max"] + 1):
            for rest in itertools.product(kinds, repeat=total - 1):
                lines = (first,) + rest
                text = "\n".join(lines) + "\n"
                n += 1
                v = check_text(text)
                if v:
                    v["detail"] = {"text": text}
                    v["subcase"] = {"kind": "text", "text": text}
                    viol.append(v)
                    if len(viol) > 20:
                        break
                # explicit state bookkeeping (reference model's stack after each line)
                stack = [""]
                for ln in lines:
                    ws = ln[:len(ln) - len(ln.lstrip())]
                    body = ln.strip()
                    transitions += 1
                    if not body or body.startswith("#"):
                        continue
                    if ws == stack[-1]:
                        pass
                    elif ws.startswith(stack[-1]):
                        stack.append(ws)
                    elif ws in stack:
                        while stack[-1] != ws:
                            stack.pop()
                    else:
                        break
                    states.add("|".join(stack))
        return {"viol": viol, "n": n, "traces": n, "transitions": transitions, "state_keys": sorted(states),
                "nt": ["indent/%d" % case["first"]], "stats": {"texts": n}}
    if k == "numeric":
        ref, tok = _ref()
        pre = NUMPREF[case["prefix"]]
        viol = []
        n = 0
        for total in range(1, case["max"] + 1):
            for rest in itertools.product("01_", repeat=total - 1):
                s = pre + case["first"] + "".join(rest)
                n += 1
                tokens, errors = tok.tokenize(s, "f")
                single_number = (not errors and len(tokens) == 2 and tokens[0].symbol == "Number"
                                 and tokens[0].text == s)
                if single_number != tokref.prose_number(s):
                    viol.append({"key": "classification-number", "msg": "%r: tokenizer says Number=%s, language reference says %s" % (
                        s, single_number, tokref.prose_number(s)), "detail": {"text": s}, "subcase": {"kind": "numeric-one", "text": s}})
                v = check_text(s)
                if v:
                    v["subcase"] = {"kind": "text", "text": s}
                    viol.append(v)
                if len(viol) > 20:
                    break
        return {"viol": viol, "n": n, "traces": n, "nt": ["numeric/%s%s" % (pre, case["first"])], "stats": {"texts": n}}
    if k == "numeric-one":
        ref, tok = _ref()
        s = case["text"]
        tokens, errors = tok.tokenize(s, "f")
        single_number = (not errors and len(tokens) == 2 and tokens[0].symbol == "Number" and tokens[0].text == s)
        if single_number != tokref.prose_number(s):
            return {"viol": [{"key": "classification-number", "msg": repr(s)}], "n": 1}
        return {"viol": [], "n": 1}
    if k == "names":
        ref, tok = _ref()
        viol = []
        n = 0
        for total in range(1, case["max"] + 1):
            for cs in itertools.product("aA_1", repeat=total):
                s = "".join(cs)
                n += 1
                tokens, errors = tok.tokenize(s, "f")
                got = None
                if not errors and len(tokens) == 2 and tokens[0].text == s and tokens[0].symbol in ("SnakeWord", "ShoutyWord", "CamelWord"):
                    got = tokens[0].symbol
                want = tokref.prose_name_class(s)
                if got != want:
                    viol.append({"key": "classification-name", "msg": "%r: tokenizer %s, language reference %s" % (s, got, want),
                                 "detail": {"text": s}})
                v = check_text(s)
                if v:
                    viol.append(v)
        return {"viol": viol[:20], "n": n, "traces": n, "nt": ["names"], "stats": {"texts": n}}
    if k == "terminators":
        T = TERMS[case["term"]]
        texts = []
        for a in TOK6:
            for b in TOK6:
                texts += [a + T + b, a + T + b + T, a + T + " " + b + T, " " + a + T + b, a + T + T + b,
                          a + T + "  " + b + T + " " + b + T + b]
        viol, n, multi = _run(texts, k)
        return {"viol": viol, "n": n, "traces": n, "nt": ["term/%d" % case["term"]], "stats": {"texts": n}}
    raise ValueError(k)


def sample_of(case):
    if case["kind"] == "lines":
        alpha = {"A22": A22, "A16": A16, "ASCII": PRINTABLE}[case["alpha"]]
        pre = "".join(alpha[i] for i in case["prefix"])
        return {"kind": "lines", "alphabet": "".join(alpha), "length": case["n"], "prefix": pre,
                "example": pre + alpha[3] * (case["n"] - len(case["prefix"]))}
    return case
