"""C18 -- the IR survives serialization; split and in-process pipelines agree.
Every accepted program of the EmbSpace at deviation <=1/2, the testdata corpus, import
families and big-constant modules: from_json(to_json(ir)) equals ir under a structural
comparer written here (set/unset status, Python type, list length, recursively), to_json is
idempotent, the header generated from the re-read IR is byte-identical, and (subset) embossc
equals emboss_front_end | emboss_codegen_cpp as subprocesses."""
import glob
import json
import os
import itertools
import subprocess
import sys
import tempfile
import shutil

from vk import common, embgen, explore, embast

PROPERTY = "C18"
LEVEL = "exploration"
RULE = ("every accepted EmbSpace program (<=1 / <=2 deviations), 31 testdata files, import families (same type/enum names in two "
        "modules, parameters, constants through aliases, namespaces), modules with constants beyond 64 bits: structural IR "
        "comparison after a JSON round trip (per field: set/unset, Python type incl. bool vs int, list length, source location "
        "flags), to_json idempotence, byte-identical header from the re-read IR; for a subset, embossc vs front end + codegen "
        "subprocesses. Non-trivial = accepted module; distinct by source text; node-kind x field coverage reported.")
ASSUMPTIONS = ["structural comparer in checks/c18.py walks ir_data_fields.field_specs and does not use Message.__eq__",
               "subprocess equivalence is run on a subset (4 s import cost per process)"]
TIMEOUT = 2400

BIG = '''[$default byte_order: "LittleEndian"]
enum Big:
  [maximum_bits: 64]
  ZERO = 0
    -- documentation on an enum value
  TOP = 18446744073709551615
  MID = 0x8000_0000_0000_0000
  CALC = 18446744073709551616 - 1
enum Neg:
  LOW = -9223372036854775808
  HIGH = 9223372036854775807
struct Foo:
  0 [+8]  UInt  x
    -- documentation on a field
    -- second line
  8 [+8]  Int  y
  let huge = 340282366920938463463374607431768211456 - 340282366920938463463374607431768211455
  let top = 18446744073709551615
  let low = -9223372036854775808
  let flag = 100000000000000000000 > 99999999999999999999
  if x == 18446744073709551615:
    16 [+1]  UInt  z
'''
IMPORT_MAIN = '''import "imp.emb" as im
[$default byte_order: "LittleEndian"]
[(cpp) namespace: "a::b"]
enum Kind:
  KA = 5
struct Inner:
  0 [+2]  UInt  a
struct Main(p: im.Kind):
  0 [+1]  im.Kind  kind
  1 [+1]  Kind  mykind
  2 [+1]  im.Inner  other_inner
  3 [+2]  Inner  my_inner
  if kind == im.Kind.KB && mykind == Kind.KA && p == im.Kind.KA:
    5 [+im.Inner.k]  im.Inner[5]  arr
  10 [+1]  im.Par(other_inner.a)  par
  let c = im.Inner.k + 1
'''
IMPORT_IMP = '''[$default byte_order: "BigEndian"]
[(cpp) namespace: "x::y"]
enum Kind:
  KA = 0
  KB = 1
struct Inner:
  0 [+1]  UInt  a
  let k = 5
struct Par(pp: UInt:8):
  0 [+1]  UInt  y
'''


def bounds(tier):
    return {"deviations": 1 if tier == "quick" else 2, "subprocess_cases": 6 if tier == "quick" else 40}


def gen_cases(tier):
    bound = 1 if tier == "quick" else 2
    k = 0
    nsub = bounds(tier)["subprocess_cases"]
    yield {"kind": "pipeline-histories"}
    yield {"kind": "text", "files": {"m.emb": BIG}, "main": "m.emb", "label": "big-constants", "subprocess": "all"}
    yield {"kind": "text", "files": {"m.emb": IMPORT_MAIN, "imp.emb": IMPORT_IMP}, "main": "m.emb", "label": "import-family", "subprocess": "all"}
    for f in sorted(glob.glob(os.path.join(common.REPO, "testdata", "*.emb"))):
        yield {"kind": "corpus", "file": os.path.relpath(f, common.REPO), "subprocess": False}
    for forced, trace, prog in explore.enumerate_vectors(embgen.program, bound):
        k += 1
        yield {"kind": "prog", "vector": explore.vector_of(forced, trace), "subprocess": (k % max(1, (180 // nsub)) == 0) and len(forced) <= 1}


# ---- structural comparison
def struct_eq(a, b, path, cov, diffs):
    e = common.emb()
    from compiler.util import ir_data_fields
    if type(a) is not type(b):
        diffs.append("%s: type %s vs %s" % (path, type(a).__name__, type(b).__name__))
        return
    if isinstance(a, e.ir_data.Message):
        for name, spec in ir_data_fields.field_specs(type(a)).items():
            va, vb = getattr(a, name), getattr(b, name)
            if va is not None and not (isinstance(va, list) and not va):
                cov.add("%s.%s" % (type(a).__name__, name))
            if (va is None) != (vb is None):
                diffs.append("%s.%s: set/unset differs (%r vs %r)" % (path, name, va if va is None else "<set>", vb if vb is None else "<set>"))
                continue
            if va is None:
                continue
            if isinstance(va, list) or isinstance(vb, list):
                if not (isinstance(va, list) and isinstance(vb, list)) or len(va) != len(vb):
                    diffs.append("%s.%s: list length differs" % (path, name))
                    continue
                for i, (x, y) in enumerate(zip(va, vb)):
                    struct_eq(x, y, "%s.%s[%d]" % (path, name, i), cov, diffs)
            else:
                struct_eq(va, vb, "%s.%s" % (path, name), cov, diffs)
            if len(diffs) > 5:
                return
        return
    if isinstance(a, tuple) and hasattr(a, "_fields"):        # SourceLocation / SourcePosition
        if tuple(a) != tuple(b):
            diffs.append("%s: %r vs %r" % (path, a, b))
        for x, y in zip(a, b):
            if type(x) is not type(y):
                diffs.append("%s: element type %s vs %s" % (path, type(x).__name__, type(y).__name__))
        return
    if a != b:
        diffs.append("%s: %r vs %r" % (path, a, b))


def run_subprocess_equivalence(files, main, traits=True, odd_name=False):
    """embossc vs emboss_front_end --output-file | emboss_codegen_cpp --input-file."""
    d = tempfile.mkdtemp(prefix="embverif-")
    try:
        if odd_name:
            # a source file whose name is not valid UTF-8 (argv then carries a surrogate escape)
            files = dict(files)
            newmain = "caf\udce9.emb"
            files[newmain] = files.pop(main)
            main = newmain
        for n, t in files.items():
            with open(os.path.join(os.fsencode(d), os.fsencode(n)), "w") as f:
                f.write(t)
        env = dict(os.environ, PYTHONHASHSEED="0", PYTHONPATH=common.REPO)
        tflag = ["--cc-enum-traits"] if traits else ["--no-cc-enum-traits"]
        r1 = subprocess.run([sys.executable, os.path.join(common.REPO, "embossc"), "--color-output", "never", "-I", d, "--output-path", d,
                             "--output-file", "one.h"] + tflag + [main], capture_output=True, text=True, cwd=d, env=env, timeout=300)
        r2 = subprocess.run([sys.executable, "-m", "compiler.front_end.emboss_front_end", "--color-output", "never", "--import-dir", d,
                             "--output-file", os.path.join(d, "ir.json"), main], capture_output=True, text=True, cwd=common.REPO, env=env, timeout=300)
        if r1.returncode != r2.returncode:
            return "exit status differs: embossc %d, front end %d (%s | %s)" % (r1.returncode, r2.returncode, r1.stderr[-200:], r2.stderr[-200:])
        if r1.returncode != 0:
            return None
        r3 = subprocess.run([sys.executable, "-m", "compiler.back_end.cpp.emboss_codegen_cpp", "--color-output", "never", "--input-file",
                             os.path.join(d, "ir.json"), "--output-file", os.path.join(d, "two.h")] + tflag, capture_output=True, text=True,
                            cwd=common.REPO, env=env, timeout=300)
        if r3.returncode != 0:
            return "codegen failed on the front end's IR: " + r3.stderr[-400:]
        a = open(os.path.join(d, "one.h")).read()
        b = open(os.path.join(d, "two.h")).read()
        if a != b:
            la, lb = a.split("\n"), b.split("\n")
            for i, (x, y) in enumerate(zip(la, lb)):
                if x != y:
                    return "headers differ at line %d: %r vs %r" % (i + 1, x[:120], y[:120])
            return "headers differ in length"
        return None
    finally:
        shutil.rmtree(d, ignore_errors=True)


def _both_pipelines(d, main, import_dirs, out1, out2, env):
    """Runs embossc and front end | codegen for `main` with the given import dirs; returns an error string or None."""
    iargs = []
    for i in import_dirs:
        iargs += ["-I", i]
    r1 = subprocess.run([sys.executable, os.path.join(common.REPO, "embossc"), "--color-output", "never"] + iargs + ["--output-path", d,
                         "--output-file", out1, main], capture_output=True, text=True, cwd=d, env=env, timeout=300)
    fargs = []
    for i in import_dirs:
        fargs += ["--import-dir", os.path.join(d, i)]
    r2 = subprocess.run([sys.executable, "-m", "compiler.front_end.emboss_front_end", "--color-output", "never"] + fargs +
                        ["--output-file", os.path.join(d, "ir.json"), main], capture_output=True, text=True, cwd=common.REPO, env=env, timeout=300)
    if r1.returncode != r2.returncode:
        return "exit status differs: embossc %d, front end %d (%s | %s)" % (r1.returncode, r2.returncode, r1.stderr[-200:], r2.stderr[-200:])
    if r1.returncode != 0:
        return "both rejected: " + r1.stderr[-200:]
    r3 = subprocess.run([sys.executable, "-m", "compiler.back_end.cpp.emboss_codegen_cpp", "--color-output", "never", "--input-file",
                         os.path.join(d, "ir.json"), "--output-file", os.path.join(d, out2)], capture_output=True, text=True,
                        cwd=common.REPO, env=env, timeout=300)
    if r3.returncode != 0:
        return "codegen failed: " + r3.stderr[-300:]
    a = open(os.path.join(d, out1)).read()
    b = open(os.path.join(d, out2)).read()
    if a != b:
        return "outputs differ: embossc wrote %d bytes, the split pipeline left %d bytes" % (len(a), len(b))
    return None


def check_pipeline_histories():
    """The two build paths stay equivalent over (a) repeated builds into the same output files, in every order of a long
    and a short module, and (b) every order of three import directories two of which hold different files of one name."""
    viol, n = [], 0
    env = dict(os.environ, PYTHONHASHSEED="0", PYTHONPATH=common.REPO)
    long_m = '[$default byte_order: "LittleEndian"]\nstruct Aa:\n  0 [+1]  UInt  x\nstruct Bb:\n  0 [+2]  UInt  y\n  2 [+2]  Aa[2]  zs\nenum Ee:\n  VV = 1\n'
    short_m = '[$default byte_order: "LittleEndian"]\nstruct Aa:\n  0 [+1]  UInt  x\n'
    for seq in itertools.product((long_m, short_m), repeat=2):
        d = tempfile.mkdtemp(prefix="embverif-")
        try:
            for step, text in enumerate(seq):
                with open(os.path.join(d, "m.emb"), "w") as f:
                    f.write(text)
                n += 1
                r = _both_pipelines(d, "m.emb", ["."], "one.h", "two.h", env)
                if r:
                    viol.append({"key": "split-pipeline-differs:rebuild", "msg": "build %d of %s into the same output files: %s" % (
                        step + 1, ["long" if t is long_m else "short" for t in seq], r)})
                    break
        finally:
            shutil.rmtree(d, ignore_errors=True)
    dirs = ["src", "site_overrides", "emboss_stock"]
    for order in itertools.permutations(dirs):
        d = tempfile.mkdtemp(prefix="embverif-")
        try:
            for k, sub in enumerate(dirs):
                os.mkdir(os.path.join(d, sub))
            with open(os.path.join(d, "src", "main.emb"), "w") as f:
                f.write('import "stamp.emb" as st\n[$default byte_order: "LittleEndian"]\nstruct Mm:\n  0 [+st.Stamp.$size_in_bytes]  st.Stamp  s\n')
            for sub, size in (("site_overrides", 4), ("emboss_stock", 8)):
                with open(os.path.join(d, sub, "stamp.emb"), "w") as f:
                    f.write('[$default byte_order: "LittleEndian"]\nstruct Stamp:\n  0 [+%d]  UInt  t\n' % size)
            n += 1
            r = _both_pipelines(d, "main.emb", list(order), "one.h", "two.h", env)
            if r:
                viol.append({"key": "split-pipeline-differs:import-dirs", "msg": "import dirs %s: %s" % (list(order), r)})
            else:
                first = [x for x in order if x != "src"][0]
                want = "4" if first == "site_overrides" else "8"
                hdr = open(os.path.join(d, "one.h")).read() if os.path.exists(os.path.join(d, "one.h")) else ""
                import re as _re
                m = _re.search(r"IntrinsicSizeInBytes\(\)[^;]*?Maybe</\*\*/ ::std::int32_t>\((\d+)\)", hdr)
                # (the size constant is checked through the generated header text only when the pattern is found)
                if m and m.group(1) != want:
                    viol.append({"key": "import-dir-order-ignored", "msg": "import dirs %s: Stamp resolved to the %s-byte file" % (list(order), m.group(1))})
        finally:
            shutil.rmtree(d, ignore_errors=True)
    return {"viol": viol, "n": n, "nt": ["pipeline-histories-%d" % i for i in range(n)], "cov": [], "stats": {"subprocess_runs": n}}


def check_files(files, main, label, do_sub):
    e = common.emb()
    ser = e.ir_data_utils.IrDataSerializer
    detail = {"files": files}
    ir, errors, ex = common.front_end(files, main, keep_cache=False)
    if ex is not None:
        return {"viol": [{"key": common.exc_key(ex), "msg": "%s: %r" % (label, ex), "detail": detail}], "n": 1}
    if errors:
        return {"viol": [], "n": 1, "stats": {"rejected": 1}}
    viol = []
    cov = set()
    try:
        j = ser(ir).to_json()
        ir2 = ser.from_json(e.ir_data.EmbossIr, j)
    except Exception as ex2:  # noqa
        return {"viol": [{"key": "serialization-exception:" + type(ex2).__name__, "msg": "%s: %r" % (label, ex2), "detail": detail}], "n": 1}
    diffs = []
    struct_eq(ir, ir2, "ir", cov, diffs)
    if diffs:
        viol.append({"key": "roundtrip-ir-differs", "msg": "%s: %s" % (label, diffs[0]), "detail": dict(detail, diffs=diffs[:6])})
    j2 = ser(ir2).to_json()
    if j2 != j:
        viol.append({"key": "to-json-not-idempotent", "msg": label, "detail": detail})
    h1, herr1, hex1 = common.back_end(ir)
    h2, herr2, hex2 = common.back_end(ir2)
    if hex1 is not None or hex2 is not None:
        if (hex1 is None) != (hex2 is None):
            viol.append({"key": "back-end-exception-only-on-one-side", "msg": "%s: in-memory %r, re-read %r" % (label, hex1, hex2), "detail": detail})
        elif hex1 is not None:
            viol.append({"key": common.exc_key(hex1), "msg": "%s: %r" % (label, hex1), "detail": detail})
    elif bool(herr1) != bool(herr2):
        viol.append({"key": "back-end-verdict-differs", "msg": label, "detail": detail})
    elif h1 != h2:
        la, lb = (h1 or "").split("\n"), (h2 or "").split("\n")
        where = next((i for i, (x, y) in enumerate(zip(la, lb)) if x != y), -1)
        viol.append({"key": "header-from-reread-ir-differs", "msg": "%s: first difference at line %d: %r vs %r" % (
            label, where + 1, la[where][:100] if where >= 0 else "", lb[where][:100] if where >= 0 else ""), "detail": detail})
    if do_sub:
        variants = [(True, False)]
        if do_sub == "all":
            variants = [(True, False), (False, False), (True, True)]
        for traits, odd in variants:
            r = run_subprocess_equivalence(files, main, traits, odd)
            if r:
                viol.append({"key": "split-pipeline-differs", "msg": "%s (enum traits %s%s): %s" % (
                    label, "on" if traits else "off", ", non-UTF-8 file name" if odd else "", r), "detail": detail})
    return {"viol": viol, "n": 1, "nt": [label], "cov": sorted(cov), "stats": {"accepted": 1, "subprocess_runs": int(bool(do_sub))}}


def check_case(case):
    if case.get("kind") == "pipeline-histories":
        return check_pipeline_histories()
    if case["kind"] == "text":
        return check_files(case["files"], case["main"], case["label"], case["subprocess"])
    if case["kind"] == "corpus":
        files = {}
        for f in glob.glob(os.path.join(common.REPO, "testdata", "*.emb")):
            files["testdata/" + os.path.basename(f)] = open(f).read()
        return check_files(files, case["file"], case["file"], case["subprocess"])
    prog = explore.replay(embgen.program, case["vector"])
    return check_files(prog.files(), "m.emb", json.dumps(case["vector"]), case["subprocess"])


def finish(tier, results, cases):
    e = common.emb()
    from compiler.util import ir_data_fields
    import dataclasses
    seen = set()
    for r in results:
        seen.update(r.pop("cov", ()))
    allf = set()
    for name in dir(e.ir_data):
        cls = getattr(e.ir_data, name)
        if isinstance(cls, type) and issubclass(cls, e.ir_data.Message) and cls is not e.ir_data.Message:
            try:
                for fname in ir_data_fields.field_specs(cls):
                    allf.add("%s.%s" % (cls.__name__, fname))
            except Exception:  # noqa
                pass
    missing = sorted(allf - seen)
    return {"coverage": {"ir_fields_total": len(allf), "ir_fields_set_at_least_once": len(allf & seen),
                         "ir_fields_never_set": missing[:60]}}


def sample_of(case):
    if case["kind"] == "prog":
        prog = explore.replay(embgen.program, case["vector"])
        return {"choice_vector": case["vector"], "emb": prog.files()["m.emb"]}
    if case["kind"] == "text":
        return {"label": case["label"], "files": case["files"]}
    return case
