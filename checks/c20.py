"""C20 -- CopyFrom and Equals implement logical copy and logical equality.
State machine: state = (source buffer, destination buffer); transitions = Equals both ways on
all ordered pairs of a buffer set built to contain equal, covered-bit-differing,
padding-only-differing and differently sized buffers, and TryToCopyFrom into destinations
of every length (pre-filled 0xEE) and onto overlapping storage at offsets -3..+3."""
import json
import re

from vk import common, cppdrv, embgen, explore, refsem

PROPERTY = "C20"
LEVEL = "model_checking"
RULE = ("EmbSpace programs (<=1 / <=2 deviations) x up to 2 parameter tuples x buffer set S (<=16 base buffers of maximal "
        "length with control variety, each with every single-byte flip ^FF and ^01 and every truncation) ; ALL ordered pairs "
        "S x S: Equals in both directions vs reference logical equality; every source x destination length 0..L+2: "
        "TryToCopyFrom result, bytes copied, bytes untouched, destination Ok and Equals source; overlapping copies at "
        "relative offsets -3..+3 vs memmove. Non-trivial = program whose Equals matrix contains both outcomes.")
ASSUMPTIONS = ["vk/refsem.py logical_equal", "view.Ok()/SizeInBytes() as decided by C01 are used by the in-driver copy oracle"]
TIMEOUT = 2400


def bounds(tier):
    return {"deviations": 1 if tier == "quick" else 2, "base_buffers": 12 if tier == "quick" else 16}


def gen_cases(tier):
    bound = 1 if tier == "quick" else 2
    for forced, trace, prog in explore.enumerate_vectors(embgen.program, bound):
        yield {"vector": explore.vector_of(forced, trace), "bases": 12 if tier == "quick" else 16}


def buffer_set(prog, nbases):
    import itertools
    al = prog.alphabets
    L = len(al)
    # bases: vary the control byte fully, payload bytes round-robin through their alphabets
    bases = []
    ctrl = al[0]
    step = max(1, len(ctrl) // nbases)
    for k, c in enumerate(ctrl[::step][:nbases]):
        b = [c]
        for pos in range(1, L):
            a = al[pos]
            b.append(a[(k + pos) % len(a)])
        bases.append(bytes(b))
    # an all-zero payload first: with the 0x80 flips below it yields +0.0 / -0.0 pairs for every Float field
    bases.insert(0, bytes([ctrl[0]] + [0] * (L - 1)))
    out = []
    seen = set()

    def add(b):
        if b not in seen:
            seen.add(b)
            out.append(b)
    for b in bases:
        add(b)
        for pos in range(L):
            for x in (0xFF, 0x01, 0x80):
                v = bytearray(b)
                v[pos] ^= x
                add(bytes(v))
        for cut in range(0, L):
            add(b[:cut])
    return out[:260]


DRV_MAIN = r'''
static unsigned long long g_calls = 0, g_viol = 0;
static void cv(const char *what, int pi, int i, int d) { ++g_viol; static std::map<std::string, int> per_kind; if (per_kind[what]++ < 6) std::printf("COPYVIOL %s P%d src=%d dstlen=%d\n", what, pi, i, d); }
int main() {
  static char obuf[1 << 20]; setvbuf(stdout, obuf, _IOFBF, sizeof obuf);
@BODY@
  std::printf("SUMMARY calls=%llu viol=%llu\n", g_calls, g_viol);
  return 0;
}
'''


def driver(prog, S):
    st = prog.module.struct(prog.root)
    ns = cppdrv.cpp_ns(prog.module)
    maxlen = max(len(b) for b in S)
    rows = ",\n".join("{%s}" % ",".join(str(x) for x in (list(b) + [0] * (maxlen - len(b)))) for b in S)
    decl = "static const unsigned char BUF[%d][%d] = {\n%s};\nstatic const int BLEN[%d] = {%s};\nstatic const int NBUF = %d;\n" % (
        len(S), max(maxlen, 1), rows, len(S), ",".join(str(len(b)) for b in S), len(S))
    body = []
    has_float = "Float" in prog.files()["m.emb"]     # NaN != NaN: Equals-after-copy is unspecified for NaN payloads
    for pi, tup in enumerate(prog.param_tuples[:2]):
        args = "".join("%s, " % cppdrv._cpp_param(prog.module, pt, v) for (pn, pt), v in zip(st.params, tup))
        mk = "%s::Make%sView(%s" % (ns, st.name, args)
        body.append("  { // parameter tuple %d" % pi)
        body.append("    std::vector<unsigned char *> ptr(NBUF);")
        body.append("    for (int i = 0; i < NBUF; ++i) { ptr[i] = (unsigned char *)std::malloc(BLEN[i] ? BLEN[i] : 1); if (BLEN[i]) std::memcpy(ptr[i], BUF[i], BLEN[i]); }")
        body.append("    std::string okrow = \"P%d OK \";" % pi)
        body.append("    for (int i = 0; i < NBUF; ++i) { auto a = %sstatic_cast<const unsigned char *>(ptr[i]), (size_t)BLEN[i]); okrow += a.Ok() ? '1' : '0'; }" % mk)
        body.append("    std::puts(okrow.c_str());")
        body.append("    for (int i = 0; i < NBUF; ++i) { auto a = %sstatic_cast<const unsigned char *>(ptr[i]), (size_t)BLEN[i]);" % mk)
        body.append("      std::string row; char hb[32]; std::snprintf(hb, sizeof hb, \"P%d EQ %%d \", i); row += hb;" % pi)
        body.append("      for (int j = 0; j < NBUF; ++j) { auto b = %sstatic_cast<const unsigned char *>(ptr[j]), (size_t)BLEN[j]);" % mk)
        body.append("        if (a.Ok() && b.Ok()) { ++g_calls; row += a.Equals(b) ? '1' : '0'; } else row += '-'; }")
        body.append("      std::puts(row.c_str());")
        # a view over constant storage assigned from a view over writable storage (parameters travel with the assignment)
        body.append("      { auto wsrc = %sptr[i], (size_t)BLEN[i]); decltype(a) ro; ro = wsrc; ++g_calls;" % mk)
        body.append("        if (ro.Ok() != a.Ok() || ro.IsComplete() != a.IsComplete()) cv(\"assigned-view-differs\", %d, i, 0);" % pi)
        if has_float:
            body.append("        }")          # NaN != NaN: Equals of identical bytes is unspecified when a Float holds a NaN
        else:
            body.append("        else if (a.Ok() && (!ro.Equals(a) || !a.Equals(ro))) cv(\"assigned-view-differs\", %d, i, 1); }" % pi)
        # copies into destinations of every length
        body.append("      for (int d = 0; d <= %d + 2; ++d) { unsigned char *dst = (unsigned char *)std::malloc(d ? d : 1); std::memset(dst, 0xEE, d ? d : 1);" % maxlen)
        body.append("        auto dv = %sdst, (size_t)d); ++g_calls; bool r = dv.TryToCopyFrom(a);" % mk)
        body.append("        bool want = a.Ok() && (size_t)d >= a.SizeInBytes();" if st.kind == "struct" else "        bool want = a.Ok();")
        body.append("        if (r != want) cv(r ? \"copied-but-should-fail\" : \"failed-but-should-copy\", %d, i, d);" % pi)
        body.append("        else if (r) { size_t n = a.SizeInBytes();")
        body.append("          if (std::memcmp(dst, ptr[i], n) != 0) cv(\"bytes-differ\", %d, i, d);" % pi)
        body.append("          for (size_t k = n; k < (size_t)d; ++k) if (dst[k] != 0xEE) { cv(\"wrote-past-size\", %d, i, d); break; }" % pi)
        if has_float:
            body.append("          if (!dv.Ok()) cv(\"dest-not-ok\", %d, i, d);" % pi)
        else:
            body.append("          if (!dv.Ok()) cv(\"dest-not-ok\", %d, i, d); else if (!dv.Equals(a) || !a.Equals(dv)) cv(\"dest-not-equal\", %d, i, d);" % (pi, pi))
        body.append("        } else { for (int k = 0; k < d; ++k) if (dst[k] != 0xEE) { cv(\"failed-copy-changed-dest\", %d, i, d); break; } }" % pi)
        body.append("        std::free(dst); }")
        # overlapping copies
        body.append("      if (a.Ok()) { size_t n = a.SizeInBytes(); for (int k = -3; k <= 3; ++k) { unsigned char *arena = (unsigned char *)std::malloc(BLEN[i] + 16);")
        body.append("          std::memset(arena, 0xEE, BLEN[i] + 16); unsigned char *src = arena + 8; std::memcpy(src, ptr[i], BLEN[i]); unsigned char *dst = src + k;")
        body.append("          std::vector<unsigned char> old(src, src + BLEN[i]);")
        body.append("          auto sv = %sstatic_cast<const unsigned char *>(src), (size_t)BLEN[i]); auto dv = %sdst, (size_t)BLEN[i]); ++g_calls;" % (mk, mk))
        body.append("          bool r = dv.TryToCopyFrom(sv); if (!r) cv(\"overlap-copy-failed\", %d, i, k); else if (std::memcmp(dst, old.data(), n) != 0) cv(\"overlap-not-memmove\", %d, i, k);" % (pi, pi))
        body.append("          std::free(arena); }")
        body.append("        // destination window over the same storage but shorter than the source's size: must fail and change nothing")
        body.append("        for (size_t d = 0; d < n; ++d) { unsigned char *cp = (unsigned char *)std::malloc(BLEN[i] ? BLEN[i] : 1); std::memcpy(cp, ptr[i], BLEN[i]);")
        body.append("          auto sv = %sstatic_cast<const unsigned char *>(cp), (size_t)BLEN[i]); auto dv = %scp, d); ++g_calls;" % (mk, mk))
        body.append("          if (dv.TryToCopyFrom(sv)) cv(\"copied-into-too-small-window-at-same-address\", %d, i, (int)d);" % pi)
        body.append("          else if (std::memcmp(cp, ptr[i], BLEN[i]) != 0) cv(\"failed-copy-changed-dest\", %d, i, (int)d); std::free(cp); } }" % pi)
        body.append("    }")
        body.append("    for (int i = 0; i < NBUF; ++i) std::free(ptr[i]);")
        body.append("  }")
    return "\n".join([cppdrv.PRELUDE, "#include <vector>\n#include <map>", decl, DRV_MAIN.replace("@BODY@", "\n".join(body))])


def check_case(case):
    prog = explore.replay(embgen.program, case["vector"])
    files = prog.files()
    stats = {"programs": 1, "accepted": 0}
    headers, err, ex = cppdrv.compile_headers(files, "m.emb")
    if ex is not None:
        return {"viol": [{"key": common.exc_key(ex), "msg": repr(ex), "detail": {"emb": files}}], "n": 1, "stats": stats}
    if err:
        return {"viol": [], "n": 1, "stats": stats}
    stats["accepted"] = 1
    prog.alphabets = embgen.alphabets_for(prog, cap=4096, max_len=8)
    S = buffer_set(prog, case["bases"])
    drv = driver(prog, S)
    with cppdrv.Scratch() as sc:
        res = cppdrv.build_and_run(sc, headers, "m.emb.h", drv, flags=["-O1", "-fsanitize=address", "-fno-omit-frame-pointer"])
    if res["compile_rc"] != 0:
        return {"viol": [{"key": "header-does-not-compile", "msg": res["compile_err"][-700:], "detail": {"emb": files}}], "n": 1, "stats": stats}
    if res["run_rc"] != 0:
        key = "asan:" + (re.search(r"AddressSanitizer: ([a-z-]+)", res["stderr"]) or [None, "crash"])[1] if "AddressSanitizer" in res["stderr"] else "driver-crashed"
        return {"viol": [{"key": key, "msg": res["stderr"][:600], "detail": {"emb": files}}], "n": 1, "stats": stats}
    viol = []
    sem = refsem.Sem(prog.module)
    st = prog.module.struct(prog.root)
    okrows = {}
    transitions = 0
    outcomes = set()
    for line in res["stdout"].decode().split("\n"):
        if line.startswith("COPYVIOL"):
            viol.append({"key": "copy-" + line.split(" ")[1], "msg": line, "detail": {"emb": files, "buffers": [b.hex() for b in S]}})
        elif line.startswith("SUMMARY"):
            m = re.search(r"calls=(\d+)", line)
            transitions = int(m.group(1))
        elif " OK " in line:
            pi = int(line.split(" ")[0][1:])
            okrows[pi] = line.split(" ")[2]
        elif " EQ " in line:
            parts = line.split(" ")
            pi, i, row = int(parts[0][1:]), int(parts[2]), parts[3]
            params = dict(zip([p for p, _t in st.params], prog.param_tuples[pi]))
            for (pn, pt) in st.params:
                if pt[0] == "enum":
                    params[pn] = ("enum", pt[1], params[pn])
            va = sem.root_view(prog.root, params, S[i])
            for j, ch in enumerate(row):
                if ch == "-":
                    continue
                vb = sem.root_view(prog.root, params, S[j])
                if not (va.ok() and vb.ok()):
                    continue        # Ok disagreements are C01's subject (known findings there)
                want = refsem.logical_equal(va, vb)
                if want is None:
                    continue
                outcomes.add(ch)
                if (ch == "1") != want:
                    viol.append({"key": "equals-wrong", "msg": "params=%s a=%s b=%s: Equals=%s, logical equality=%s" % (
                        prog.param_tuples[pi], S[i].hex(), S[j].hex(), ch, want),
                        "detail": {"emb": files, "a": S[i].hex(), "b": S[j].hex()}})
                    if len([v for v in viol if v["key"] == "equals-wrong"]) > 20:
                        break
    seen, keep = {}, []
    for v in viol:
        seen[v["key"]] = seen.get(v["key"], 0) + 1
        if seen[v["key"]] <= 2:
            keep.append(v)
    nt = [json.dumps(case["vector"])] if len(outcomes) == 2 else []
    return {"viol": keep, "n": transitions, "transitions": transitions, "traces": transitions,
            "states": len(S) * len(S) * min(2, len(prog.param_tuples)), "nt": nt, "stats": stats}


def sample_of(case):
    prog = explore.replay(embgen.program, case["vector"])
    prog.alphabets = embgen.alphabets_for(prog, cap=4096, max_len=8)
    S = buffer_set(prog, case["bases"])
    return {"choice_vector": case["vector"], "emb": prog.files()["m.emb"], "buffers": [b.hex() for b in S[:12]], "n_buffers": len(S)}
