"""C06 -- text format output reads back to the same structure.
(a) EmbSpace programs x Ok buffers x all 18 re-readable option sets: write / zero / read /
    write fixpoint inside the driver; the single-line text is parsed in Python and its field
    names, order and values are compared with the reference semantics;
(b) integer codec: every value of (u)int8/16 and a boundary alphabet of (u)int32/64 x base x
    grouping round-trips; a catalogue of malformed numbers is rejected without touching the
    destination."""
import json
import re

from vk import common, cppdrv, embgen, explore, refsem

PROPERTY = "C06"
LEVEL = "exploration"
RULE = ("EmbSpace programs (<=1 / <=2 deviations, incl. text_output Skip/Emit) x every Ok buffer of the enumeration (cap "
        "1024/4096) x 18 option sets {base 2,10,16} x {grouping on,off} x {multiline+comments, multiline, single line}: "
        "UpdateFromText(WriteToString(v,o)) into a zeroed buffer succeeds and re-renders identically; single-line text parsed: "
        "emitted names = present non-Skip fields, dependency order, values = refsem. Integer codec: all values of 8/16-bit "
        "types, boundary values of 32/64-bit x 6 option sets; 40 malformed numbers rejected with destination untouched. "
        "Non-trivial = program with >=1 Ok buffer whose text has a conditional, dynamic or nested field.")
ASSUMPTIONS = ["vk/refsem.py; the 60-line text reader in checks/c06.py",
               "programs in which a Skip field is read by another field's location/condition are run for crashes only",
               "single-line output with comments is not re-readable by design and is not in the option sets"]
TIMEOUT = 2400

OPTS = []
for base in (10, 2, 16):
    for grouping in (0, 1):
        for shape in ("ml_c", "ml", "sl"):
            OPTS.append((base, grouping, shape))


def bounds(tier):
    return {"deviations": 1 if tier == "quick" else 2, "buffer_cap": 1024 if tier == "quick" else 4096, "option_sets": len(OPTS)}


def gen_cases(tier):
    yield {"kind": "codec"}
    bound = 1 if tier == "quick" else 2
    for forced, trace, prog in explore.enumerate_vectors(embgen.program, bound):
        yield {"kind": "prog", "vector": explore.vector_of(forced, trace), "cap": 1024 if tier == "quick" else 4096}


def opt_expr(o):
    base, grouping, shape = o
    e = "::emboss::MultilineText()" if shape.startswith("ml") else "::emboss::TextOutputOptions()"
    if shape == "ml_c":
        e += ".WithComments(true)"
    e += ".WithNumericBase(%d).WithDigitGrouping(%s)" % (base, "true" if grouping else "false")
    return e


def section(st, args, roundtrip):
    mk = "@NS@::Make%sView(%s" % (st.name, args)
    L = []
    L.append("        if (view.Ok()) {")
    L.append("          std::string t0 = ::emboss::WriteToString(view); o.clear(); o += \"T \"; vk::hex(o, p, len); o += ' '; o += t0; o += '\\n'; fwrite(o.data(), 1, o.size(), stdout);")
    if roundtrip:
        L.append("          for (int oi = 0; oi < %d; ++oi) {" % len(OPTS))
        L.append("            ::emboss::TextOutputOptions opt;")
        L.append("            switch (oi) {")
        for i, op in enumerate(OPTS):
            L.append("              case %d: opt = %s; break;" % (i, opt_expr(op)))
        L.append("            }")
        L.append("            std::string t = ::emboss::WriteToString(view, opt);")
        L.append("            unsigned char *z = (unsigned char *)std::calloc(len ? len : 1, 1); auto zv = %sz, (size_t)len);" % mk)
        L.append("            ++g_rt; bool r = ::emboss::UpdateFromText(zv, t);")
        L.append("            if (!r) { rtv(\"update-from-text-failed\", oi, p, len, t); }")
        L.append("            else { std::string t2 = ::emboss::WriteToString(zv, opt.WithAllowPartialOutput(true)); if (t2 != t) rtv(\"reread-differs\", oi, p, len, t + \" ### \" + t2); }")
        L.append("            std::free(z); }")
    L.append("        }")
    return "\n".join(L)


DECLS = r'''
#include <map>
static unsigned long long g_rt = 0, g_rtviol = 0;
static void rtv(const char *what, int oi, const unsigned char *p, int len, const std::string &t) {
  ++g_rtviol; static std::map<std::string, int> per_kind; if (per_kind[what]++ >= 6) return;
  std::string o = "RTVIOL "; o += what; char b[32]; std::snprintf(b, sizeof b, " opt=%d buf=", oi); o += b; vk::hex(o, p, len); o += " text=";
  for (size_t i = 0; i < t.size() && i < 400; ++i) o += (t[i] == '\n') ? '|' : t[i];
  o += '\n'; fwrite(o.data(), 1, o.size(), stdout);
}
'''


# ---- tiny reader for the single-line text format
def parse_text(t):
    toks = re.findall(r"\{|\}|,|\[[^\]]*\]:|[A-Za-z_][A-Za-z_0-9]*:|[^\s,{}]+", t)
    pos = [0]

    def value():
        tok = toks[pos[0]]
        if tok == "{":
            pos[0] += 1
            items = []
            while toks[pos[0]] != "}":
                tk = toks[pos[0]]
                if tk == ",":
                    pos[0] += 1
                    continue
                if tk.endswith(":") and tk[0] == "[":
                    pos[0] += 1
                    items.append((int(tk[1:-2], 0), value()))
                elif tk.endswith(":"):
                    pos[0] += 1
                    items.append((tk[:-1], value()))
                else:
                    items.append((None, value()))
            pos[0] += 1
            return items
        pos[0] += 1
        return tok
    v = value()
    return v


def expected_items(module, view, sem):
    """[(name, value-or-nested)] for fields that must be emitted: present, not Skip; order free."""
    out = {}
    for f in view.sdef.fields:
        members = f.type[1] if (f.type is not None and f.type[0] == "anon") else [f]
        for g in members:
            if g.text_output == "Skip":
                continue
            if view.has(g.name) is not True:
                continue
            x = view.view_of(g.name)
            out[g.name] = x
    return out


def scalar_matches(module, tok, val):
    if isinstance(val, bool):
        return tok == ("true" if val else "false")
    if isinstance(val, tuple) and val[0] == "enum":
        e = module.enum(val[1])
        names = [n for n, v in e.values if v == val[2]]
        if names:
            return tok == names[0]
        return int(tok, 0) == val[2]
    if isinstance(val, tuple) and val[0] == "float":
        return True
    try:
        return int(tok.replace("_", ""), 0) == val
    except ValueError:
        return False


def _doc_writeable(e):
    """Aliases and the documented simple transforms y+K, K+y, y-K, K-y."""
    if e[0] == "f":
        return True
    if e[0] == "op" and e[1] in ("+", "-"):
        a, b = e[2], e[3]
        if a[0] == "f" and b[0] == "c":
            return True
        if a[0] == "c" and b[0] == "f":
            return True
    return False


def compare_struct(module, items, view, sem, path, problems, deps):
    want = expected_items(module, view, sem)
    names = [n for n, _v in items]
    # read-only virtual fields are emitted only as comments; only documented-writeable virtuals must appear
    optional = set()
    for f in view.sdef.fields:
        if f.virtual and not _doc_writeable(f.expr):
            optional.add(f.name)
    if sorted(n for n in names if n not in optional) != sorted(n for n in want if n not in optional) or \
            any(n not in want for n in names):
        problems.append("%s: emitted fields %s, expected %s" % (path or "<top>", names, sorted(want)))
        return
    posn = {n: i for i, n in enumerate(names)}
    for n, before in deps.get(view.sdef.name, []):
        if n in posn and before in posn and posn[before] > posn[n]:
            problems.append("%s: field %s emitted before %s which its location/condition reads" % (path or "<top>", n, before))
    for n, v in items:
        x = want[n]
        if x.kind in ("scalar", "virtual", "param"):
            if isinstance(v, list) or not scalar_matches(module, v, x.value()):
                problems.append("%s%s: text %r, value %r" % (path, n, v, x.value()))
        elif x.kind == "struct":
            if not isinstance(v, list):
                problems.append("%s%s: expected a structure" % (path, n))
            else:
                compare_struct(module, v, x, sem, path + n + ".", problems, deps)
        elif x.kind == "array":
            if not isinstance(v, list):
                problems.append("%s%s: expected an array" % (path, n))
                continue
            idx = 0
            seen = 0
            for k, ev in v:
                if k is not None:
                    idx = k
                el = x.element(idx)
                if el.kind == "scalar":
                    if isinstance(ev, list) or not scalar_matches(module, ev, el.value()):
                        problems.append("%s%s[%d]: text %r, value %r" % (path, n, idx, ev, el.value()))
                elif el.kind == "struct" and isinstance(ev, list):
                    compare_struct(module, ev, el, sem, "%s%s[%d]." % (path, n, idx), problems, deps)
                idx += 1
                seen += 1
            if seen != x.count():
                problems.append("%s%s: %d elements in text, %d in array" % (path, n, seen, x.count()))


def dependency_pairs(module):
    """struct name -> [(field, field it reads in location/condition)]"""
    out = {}
    for s in module.structs:
        pairs = []
        for f in s.fields:
            members = f.type[1] if (f.type is not None and f.type[0] == "anon") else [f]
            for g in members:
                acc = set()
                for e in (g.start, g.size, g.cond):
                    embgen._refs(e, acc)
                for r in acc:
                    if not r.startswith("$"):
                        pairs.append((g.name, r))
        out[s.name] = pairs
    return out


def check_prog(case):
    prog = explore.replay(embgen.program, case["vector"])
    files = prog.files()
    stats = {"programs": 1, "accepted": 0}
    headers, err, ex = cppdrv.compile_headers(files, "m.emb")
    if ex is not None:
        return {"viol": [{"key": common.exc_key(ex), "msg": repr(ex), "detail": {"emb": files}}], "n": 1, "stats": stats}
    if err:
        return {"viol": [], "n": 1, "stats": stats}
    stats["accepted"] = 1
    prog.alphabets = embgen.alphabets_for(prog, cap=case["cap"])
    st = prog.module.struct(prog.root)
    refs = embgen.referenced_names(st)
    skip_read = any((g.text_output == "Skip" and g.name in refs) for g in st.all_named_fields())
    extra = lambda pi, args: section(st, args, not skip_read)
    drv = cppdrv.driver_source(prog.module, prog.root, prog.param_tuples, prog.alphabets, extra_decls=DECLS,
                               extra_sections=extra, observe=False)
    drv = drv.replace("  return 0;\n}", "  std::printf(\"SUMMARY rt=%llu viol=%llu\\n\", g_rt, g_rtviol);\n  return 0;\n}")
    with cppdrv.Scratch() as sc:
        res = cppdrv.build_and_run(sc, headers, "m.emb.h", drv, flags=["-O1"])
    if res["compile_rc"] != 0:
        return {"viol": [{"key": "header-does-not-compile", "msg": res["compile_err"][-700:], "detail": {"emb": files}}], "n": 1, "stats": stats}
    if res["run_rc"] != 0:
        return {"viol": [{"key": "driver-crashed", "msg": "rc=%s %s" % (res["run_rc"], res["stderr"][-500:]), "detail": {"emb": files}}],
                "n": 1, "stats": stats}
    viol = []
    sem = refsem.Sem(prog.module)
    deps = dependency_pairs(prog.module)
    n = 0
    rt = 0
    cur_pi = 0
    texts = 0
    # the driver prints T lines inside the per-tuple block; tuples appear in order for each buffer
    per_buffer = {}
    for line in res["stdout"].decode("utf-8", "replace").split("\n"):
        if line.startswith("RTVIOL"):
            parts = line.split(" ", 2)
            viol.append({"key": "roundtrip-" + parts[1], "msg": line[:500], "detail": {"emb": files}})
        elif line.startswith("SUMMARY"):
            rt = int(re.search(r"rt=(\d+)", line).group(1))
        elif line.startswith("T "):
            _t, hx, text = line.split(" ", 2)
            k = per_buffer.get(hx, 0)
            per_buffer[hx] = k + 1
            pi = k
            texts += 1
            if len([v for v in viol if v["key"] == "text-content-wrong"]) > 12:
                continue
            params = dict(zip([p for p, _t2 in st.params], prog.param_tuples[pi] if pi < len(prog.param_tuples) else ()))
            # with several parameter tuples only some are Ok for a buffer: match by trying tuples in order
            cands = []
            for tup in prog.param_tuples:
                pr = dict(zip([p for p, _t2 in st.params], tup))
                for (pn, pt) in st.params:
                    if pt[0] == "enum":
                        pr[pn] = ("enum", pt[1], pr[pn])
                v = sem.root_view(prog.root, pr, bytes.fromhex(hx))
                if v.ok():
                    cands.append(v)
            items = parse_text(text)
            best = None
            for v in cands:
                problems = []
                compare_struct(prog.module, items, v, sem, "", problems, deps)
                if not problems:
                    best = []
                    break
                best = problems if best is None else best
            if best:
                key = "text-content-wrong"
                m = re.search(r"text '(-?\d+)', value \('enum', '([\w.]+)', (-?\d+)\)", best[0])
                if m and sem.enum_signed(prog.module.enum(m.group(2))) and int(m.group(1)) - int(m.group(3)) in (256, 65536, 1 << 32):
                    key = "signed-enum-narrow"
                viol.append({"key": key, "msg": "buffer=%s text=%s: %s" % (hx, text[:200], best[0]),
                             "detail": {"emb": files, "buffer": hx, "text": text}})
    seen, keep = {}, []
    for v in viol:
        seen[v["key"]] = seen.get(v["key"], 0) + 1
        if seen[v["key"]] <= 2:
            keep.append(v)
    dynamic = any(x != 0 for _t, _i, x in case["vector"])
    return {"viol": keep, "n": rt + texts, "nt": [json.dumps(case["vector"])] if (dynamic and texts) else [],
            "stats": dict(stats, roundtrips=rt, texts_parsed=texts, roundtrip_skipped=int(skip_read))}


# ------------------------------------------------------------------ integer codec
CODEC_EMB = '''[$default byte_order: "LittleEndian"]
struct Cc:
  0 [+1]  UInt  u8
  1 [+1]  Int  i8
  2 [+2]  UInt  u16
  4 [+2]  Int  i16
  6 [+4]  UInt  u32
  10 [+4]  Int  i32
  14 [+8]  UInt  u64
  22 [+8]  Int  i64
enum Small:
  [maximum_bits: 8]
  SA = 1
enum SSmall:
  [maximum_bits: 8]
  [is_signed: true]
  SB = -1
enum Big:
  BA = 1
enum SBig:
  [is_signed: true]
  BB = -1
struct En:
  0 [+1]  Small  es
  1 [+1]  SSmall  ss
  2 [+8]  Big  eb
  10 [+8]  SBig  sb
'''
MALFORMED_NUM = ["0x_", "0b_", "0x__", "0X_", "0B_", "_", "__", "", "-", "0x", "0b", "-0x", "0b2", "12a", "0xg", "_1", "256", "-1", "1e3", "0x100", "--1", "+1", "1.0", " ", "0b100000000",
                 "99999999999999999999999999999999999999999", "0o7", "true", "- 1", "1-", "0x-1", "１", "0b", "x", "0xx1"]

CODEC_DRV = r'''
#include <cstdio>
#include <cstring>
#include <cstdint>
#include <string>
#include "prog.emb.h"
namespace G = ::emboss_generated_code;
static unsigned long long g_n = 0, g_viol = 0;
static void vio(const char *what, const char *field, long long v, const std::string &t) { ++g_viol; static int per[8]; int k = what[0] % 8; if (per[k]++ < 12) std::printf("CODECVIOL %s %s v=%lld text=%s\n", what, field, v, t.c_str()); }
template <class F, class T> static void rt(unsigned char *buf, F get, const char *name, T v) {
  for (int base = 0; base < 3; ++base) for (int grp = 0; grp < 2; ++grp) {
    auto view = G::MakeCcView(buf, 30);
    get(view).Write(v);
    auto opt = ::emboss::TextOutputOptions().WithNumericBase(base == 0 ? 10 : (base == 1 ? 2 : 16)).WithDigitGrouping(grp != 0);
    std::string t = ::emboss::WriteToString(get(view), opt);
    unsigned char z[30]; std::memset(z, 0, 30); auto zv = G::MakeCcView(z, 30);
    ++g_n;
    if (!::emboss::UpdateFromText(get(zv), t)) { vio("decode-failed", name, (long long)v, t); continue; }
    if (get(zv).Read() != v) vio("decode-wrong", name, (long long)v, t);
  }
}
#define FIELD(NAME) [](decltype(G::MakeCcView((unsigned char *)0, 30)) &v) { return v.NAME(); }
int main() {
  unsigned char buf[30]; std::memset(buf, 0, 30);
  for (long long v = 0; v <= 255; ++v) rt(buf, FIELD(u8), "u8", (std::uint8_t)v);
  for (long long v = -128; v <= 127; ++v) rt(buf, FIELD(i8), "i8", (std::int8_t)v);
  for (long long v = 0; v <= 65535; ++v) rt(buf, FIELD(u16), "u16", (std::uint16_t)v);
  for (long long v = -32768; v <= 32767; ++v) rt(buf, FIELD(i16), "i16", (std::int16_t)v);
  const long long b32[] = {0, 1, 9, 10, 255, 256, 999, 1000, 65535, 65536, 999999, 1000000, 2147483646LL, 2147483647LL, 2147483648LL, 4294967294LL, 4294967295LL};
  for (unsigned i = 0; i < sizeof(b32) / sizeof(b32[0]); ++i) { rt(buf, FIELD(u32), "u32", (std::uint32_t)b32[i]); if (b32[i] <= 2147483647LL) { rt(buf, FIELD(i32), "i32", (std::int32_t)b32[i]); rt(buf, FIELD(i32), "i32", (std::int32_t)(-b32[i])); } }
  rt(buf, FIELD(i32), "i32", (std::int32_t)(-2147483647 - 1));
  const unsigned long long b64[] = {0, 1, 999, 1000, 4294967295ULL, 4294967296ULL, 9223372036854775806ULL, 9223372036854775807ULL, 9223372036854775808ULL, 18446744073709551614ULL, 18446744073709551615ULL, 1000000000000000000ULL, 10000000000000000000ULL};
  for (unsigned i = 0; i < sizeof(b64) / sizeof(b64[0]); ++i) { rt(buf, FIELD(u64), "u64", (std::uint64_t)b64[i]); if (b64[i] <= 9223372036854775807ULL) { rt(buf, FIELD(i64), "i64", (std::int64_t)b64[i]); rt(buf, FIELD(i64), "i64", -(std::int64_t)b64[i]); } }
  rt(buf, FIELD(i64), "i64", (std::int64_t)(-9223372036854775807LL - 1));
  // malformed numbers: rejected, destination untouched
  static const char *BAD[] = { @BAD@ };
  for (unsigned i = 0; i < sizeof(BAD) / sizeof(BAD[0]); ++i) {
    unsigned char z[30]; std::memset(z, 0x5A, 30); auto zv = G::MakeCcView(z, 30);
    ++g_n;
    bool r = ::emboss::UpdateFromText(zv.u8(), std::string(BAD[i]));
    if (r) vio("malformed-accepted", "u8", (long long)zv.u8().Read(), BAD[i]);
    for (int k = 0; k < 30; ++k) if (z[k] != 0x5A) { vio("malformed-changed-destination", "u8", k, BAD[i]); break; }
  }
  static const char *BAD16[] = {"65536", "-32769", "0x10000", "0b10000000000000000", "32768"};
  for (unsigned i = 0; i < 5; ++i) {
    unsigned char z[30]; std::memset(z, 0x5A, 30); auto zv = G::MakeCcView(z, 30); ++g_n;
    bool r = (i == 1 || i == 4) ? ::emboss::UpdateFromText(zv.i16(), std::string(BAD16[i])) : ::emboss::UpdateFromText(zv.u16(), std::string(BAD16[i]));
    if (r) vio("out-of-range-accepted", "16", 0, BAD16[i]);
    for (int k = 0; k < 30; ++k) if (z[k] != 0x5A) { vio("malformed-changed-destination", "16", k, BAD16[i]); break; }
  }
  // just outside every wider type: max+1 .. max+16, min-1 .. min-16, in base 10 and 16
#define OUTSIDE(FIELD, TEXT) { unsigned char z[30]; std::memset(z, 0x5A, 30); auto zv = G::MakeCcView(z, 30); ++g_n; \
    if (::emboss::UpdateFromText(zv.FIELD(), std::string(TEXT))) vio("out-of-range-accepted", #FIELD, 0, TEXT); \
    for (int k = 0; k < 30; ++k) if (z[k] != 0x5A) { vio("malformed-changed-destination", #FIELD, k, TEXT); break; } }
  OUTSIDE(u32, "4294967296") OUTSIDE(u32, "4294967299") OUTSIDE(u32, "4294967305") OUTSIDE(u32, "0x100000000") OUTSIDE(u32, "0x10000000f") OUTSIDE(u32, "-1")
  OUTSIDE(i32, "2147483648") OUTSIDE(i32, "2147483649") OUTSIDE(i32, "2147483657") OUTSIDE(i32, "0x80000000") OUTSIDE(i32, "0x8000000f")
  OUTSIDE(i32, "-2147483649") OUTSIDE(i32, "-2147483657") OUTSIDE(i32, "-0x80000001") OUTSIDE(i32, "-0x8000000f") OUTSIDE(i32, "0b10000000000000000000000000000000")
  OUTSIDE(u64, "18446744073709551616") OUTSIDE(u64, "18446744073709551619") OUTSIDE(u64, "18446744073709551625") OUTSIDE(u64, "0x10000000000000000") OUTSIDE(u64, "0x1000000000000000f")
  OUTSIDE(i64, "9223372036854775808") OUTSIDE(i64, "9223372036854775809") OUTSIDE(i64, "9223372036854775817") OUTSIDE(i64, "0x8000000000000000") OUTSIDE(i64, "0x800000000000000f")
  OUTSIDE(i64, "-9223372036854775809") OUTSIDE(i64, "-9223372036854775817") OUTSIDE(i64, "-0x8000000000000001") OUTSIDE(i64, "-0x800000000000000f")
  // separators only, after a sign
  OUTSIDE(i8, "-_") OUTSIDE(i8, "-0x_") OUTSIDE(i8, "-0b__") OUTSIDE(i16, "-_") OUTSIDE(i64, "-0x_")
  // numbers outside an enum's underlying type must not wrap into it
#define OUTSIDE_E(FIELD, TEXT) { unsigned char z[18]; std::memset(z, 0x5A, 18); auto zv = G::MakeEnView(z, 18); ++g_n; \
    if (::emboss::UpdateFromText(zv.FIELD(), std::string(TEXT))) vio("out-of-range-accepted", #FIELD, 0, TEXT); \
    for (int k = 0; k < 18; ++k) if (z[k] != 0x5A) { vio("malformed-changed-destination", #FIELD, k, TEXT); break; } }
#define INSIDE_E(FIELD, TEXT, WANT) { unsigned char z[18]; std::memset(z, 0x5A, 18); auto zv = G::MakeEnView(z, 18); ++g_n; \
    if (!::emboss::UpdateFromText(zv.FIELD(), std::string(TEXT))) vio("decode-failed", #FIELD, 0, TEXT); \
    else if ((long long)zv.FIELD().Read() != (long long)(WANT)) vio("decode-wrong", #FIELD, (long long)zv.FIELD().Read(), TEXT); }
  OUTSIDE_E(es, "256") OUTSIDE_E(es, "257") OUTSIDE_E(es, "300") OUTSIDE_E(es, "0x100") OUTSIDE_E(es, "-1") OUTSIDE_E(es, "-255") OUTSIDE_E(es, "0x100000001") OUTSIDE_E(es, "18446744073709551615")
  OUTSIDE_E(ss, "128") OUTSIDE_E(ss, "-129") OUTSIDE_E(ss, "255") OUTSIDE_E(ss, "4294967295") OUTSIDE_E(ss, "18446744073709551615") OUTSIDE_E(ss, "-9223372036854775808")
  OUTSIDE_E(eb, "-1") OUTSIDE_E(eb, "-9223372036854775808") OUTSIDE_E(eb, "18446744073709551616")
  OUTSIDE_E(sb, "9223372036854775808") OUTSIDE_E(sb, "18446744073709551615") OUTSIDE_E(sb, "-9223372036854775809")
  INSIDE_E(es, "255", 255) INSIDE_E(es, "0", 0) INSIDE_E(es, "SA", 1) INSIDE_E(eb, "18446744073709551615", -1) INSIDE_E(eb, "BA", 1)
  INSIDE_E(sb, "-9223372036854775808", (-9223372036854775807LL - 1)) INSIDE_E(sb, "9223372036854775807", 9223372036854775807LL) INSIDE_E(sb, "BB", -1)
  OUTSIDE(u8, "0x100") OUTSIDE(u8, "0b100000000") OUTSIDE(i8, "128") OUTSIDE(i8, "-129") OUTSIDE(i8, "0x80") OUTSIDE(i8, "-0x81") OUTSIDE(u16, "65540") OUTSIDE(i16, "-32770")
  std::printf("SUMMARY n=%llu viol=%llu\n", g_n, g_viol);
  return 0;
}
'''


def check_codec(flags=("-O1",), sanitized=False):
    headers, err, ex = cppdrv.compile_headers({"m.emb": CODEC_EMB}, "m.emb")
    if ex is not None or err:
        return {"viol": [{"key": "codec-module-rejected", "msg": "%r %r" % (err, ex)}], "n": 1}
    bad = ", ".join('"%s"' % b for b in MALFORMED_NUM)
    with cppdrv.Scratch() as sc:
        res = cppdrv.build_and_run(sc, headers, "m.emb.h", CODEC_DRV.replace("@BAD@", bad), flags=list(flags))
    if res["compile_rc"] != 0:
        return {"viol": [{"key": "header-does-not-compile", "msg": res["compile_err"][-700:]}], "n": 1}
    if sanitized and (res["run_rc"] != 0 or res["stderr"].strip()):
        return {"viol": [{"key": "sanitizer-report-in-text-codec", "msg": "rc=%s %s" % (res["run_rc"], res["stderr"][:500])}], "n": 1}
    if res["run_rc"] != 0:
        return {"viol": [{"key": "driver-crashed", "msg": "rc=%s %s" % (res["run_rc"], res["stderr"][-400:])}], "n": 1}
    out = res["stdout"].decode("utf-8", "replace")
    viol = []
    for line in out.split("\n"):
        if line.startswith("CODECVIOL"):
            viol.append({"key": "codec-" + line.split(" ")[1], "msg": line[:300]})
    n = int(re.search(r"SUMMARY n=(\d+)", out).group(1))
    return {"viol": viol[:6], "n": n, "nt": ["codec-%d" % i for i in range(8)], "stats": {"codec_roundtrips": n}}


def check_case(case):
    if case["kind"] == "codec":
        return check_codec()
    return check_prog(case)


def sample_of(case):
    if case["kind"] == "codec":
        return {"kind": "codec", "emb": CODEC_EMB, "malformed": MALFORMED_NUM[:10]}
    prog = explore.replay(embgen.program, case["vector"])
    return {"choice_vector": case["vector"], "emb": prog.files()["m.emb"], "option_sets": len(OPTS)}
