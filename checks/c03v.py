"""Virtual-field write cases for C03: aliases and every add/subtract shape up to a
nesting depth over 8-bit targets, with and without [requires] on the virtual and on
the target, driven over every candidate value in a window around the representable
range.  Expected behaviour = the unique pre-image under the (affine) expression."""
import itertools
import re

from vk import common, cppdrv

KS = [3, 10]


def shapes(depth):
    """Yields (text with placeholder T, sign, const) for expressions s*T + c built from + and - with constants."""
    level = [("T", 1, 0)]
    out = []
    for d in range(depth):
        nxt = []
        for (t, s, c) in level:
            for k in KS:
                nxt.append(("(%s + %d)" % (t, k), s, c + k))
                nxt.append(("(%d + %s)" % (k, t), s, c + k))
                nxt.append(("(%s - %d)" % (t, k), s, c - k))
                nxt.append(("(%d - %s)" % (k, t), -s, k - c))
        out.extend(nxt)
        level = nxt
    return out


def gen_cases(tier):
    depth = 2 if tier == "quick" else 3
    sh = shapes(depth)
    # chunks of 40 virtual fields per module
    for tgt in ("x", "y", "chain"):
        for lo in range(0, len(sh), 40):
            yield {"layout": "virtual", "target": tgt, "depth": depth, "lo": lo, "hi": min(len(sh), lo + 40)}


def module_for(case):
    sh = shapes(case["depth"])[case["lo"]:case["hi"]]
    tgt = case["target"]
    lines = ['[$default byte_order: "LittleEndian"]', "struct Inner:", "  0 [+1]  UInt  a", "struct Vv:",
             "  0 [+1]  UInt  x", "  1 [+1]  Int  y", "    [requires: this >= -100]", "  2 [+1]  Inner  inn",
             "  let ax = x", "  let an = inn.a", "  let c1 = x + 1", "  let c2 = 10 - c1"]
    fields = []       # (name, sign, const, target field, tlo, thi, target_req_lo, vreq_lt or None)
    fields.append(("ax", 1, 0, "x", 0, 255, None, None))
    fields.append(("an", 1, 0, "inn().a", 0, 255, None, None))
    fields.append(("c1", 1, 1, "x", 0, 255, None, None))
    fields.append(("c2", -1, 9, "x", 0, 255, None, None))
    for i, (t, s, c) in enumerate(sh):
        name = "e%d" % i
        if tgt == "x":
            lines.append("  let %s = %s" % (name, t.replace("T", "x")))
            fields.append((name, s, c, "x", 0, 255, None, None))
        elif tgt == "y":
            lines.append("  let %s = %s" % (name, t.replace("T", "y")))
            lines.append("    [requires: this < 60]")
            fields.append((name, s, c, "y", -128, 127, -100, 60))
        else:
            # y of the doc's "where y is a writeable field": the operand is itself a writeable virtual
            lines.append("  let %s = %s" % (name, t.replace("T", "c2")))
            fields.append((name, -s, c + 9 * s, "x", 0, 255, None, None))
    return "\n".join(lines) + "\n", fields


DRV = r'''
#include <cstdio>
#include <cstring>
#include <cstdint>
#include <map>
#include <string>
#include "prog.emb.h"
namespace G = ::emboss_generated_code;
static unsigned long long g_n = 0, g_mism = 0; static int g_printed = 0;
static void rep(const char *what, const char *name, long long v, long long t0, const char *more) {
  ++g_mism; static std::map<std::string, int> per_kind; if (per_kind[what]++ < 10 && g_printed++ < 200) std::printf("MISMATCH %s %s v=%lld target_before=%lld %s\n", what, name, v, t0, more);
}
#define VCHECK(NAME, S, C, TGT, TLO, THI, HAS_TREQ, TREQ_LO, HAS_VREQ, VREQ_LT, TBYTE) \
static void chk_##NAME() { \
  const long long inits[] = {0, 1, 7, 127, 128, 200, 255}; \
  for (unsigned ii = 0; ii < sizeof(inits) / sizeof(inits[0]); ++ii) for (int trunc = 0; trunc < 2; ++trunc) \
  for (long long v = -420; v <= 720; ++v) { \
    unsigned char buf[3] = {0x5A, 0x5A, 0x5A}, before[3]; buf[TBYTE] = (unsigned char)inits[ii]; std::memcpy(before, buf, 3); \
    auto view = G::MakeVvView(buf, trunc ? (size_t)TBYTE : (size_t)3); \
    long long t = (long long)(S) * (v - (long long)(C)); \
    bool rep_ok = t >= (TLO) && t <= (THI) && (!(HAS_TREQ) || t >= (TREQ_LO)) && (!(HAS_VREQ) || v < (VREQ_LT)); \
    auto vw = view.NAME(); \
    bool could = vw.CouldWriteValue(v); \
    bool wrote = vw.TryToWrite(v); \
    ++g_n; \
    if (could != rep_ok) { rep("could-write", #NAME, v, inits[ii], could ? "got=1" : "got=0"); continue; } \
    bool want = rep_ok && !trunc; \
    if (wrote != want) { rep("try-to-write", #NAME, v, inits[ii], wrote ? "got=1" : "got=0"); continue; } \
    unsigned char exp[3]; std::memcpy(exp, before, 3); if (wrote) exp[TBYTE] = (unsigned char)(t & 0xff); \
    if (std::memcmp(exp, buf, 3) != 0) { char m[64]; std::snprintf(m, sizeof m, "buf=%02x%02x%02x want=%02x%02x%02x", buf[0], buf[1], buf[2], exp[0], exp[1], exp[2]); rep("buffer", #NAME, v, inits[ii], m); continue; } \
    if (wrote) { auto v2 = G::MakeVvView(buf, 3); if (!v2.NAME().Ok() || (long long)v2.NAME().Read() != v || (long long)v2.TGT().Read() != t) rep("read-back", #NAME, v, inits[ii], ""); } \
  } }
@DEFS@
int main() {
@CALLS@
  std::printf("SUMMARY writes=%llu mism=%llu\n", g_n, g_mism);
  return 0;
}
'''


def check_case(case):
    e = common.emb()
    src, fields = module_for(case)
    label = "virtual/%s/d%d/%d-%d" % (case["target"], case["depth"], case["lo"], case["hi"])
    ir, errors, ex = common.front_end({"m.emb": src}, keep_cache=False)
    if ex is not None:
        return {"viol": [{"key": common.exc_key(ex), "msg": "%s: %r" % (label, ex), "detail": {"emb": src}}], "n": 1}
    if errors:
        return {"viol": [{"key": "virtual-module-rejected", "msg": "%s: %s" % (label, common.first_error_text(errors)),
                          "detail": {"emb": src}}], "n": 1}
    st = [t for t in ir.module[0].type if t.name.name.text == "Vv"][0].structure
    methods = {}
    for f in st.field:
        wm = f.write_method
        methods[f.name.name.text] = wm.which_method if wm is not None else None
    viol = []
    defs, calls = [], []
    nwrit = 0
    for (name, s, c, tgt, tlo, thi, treq, vreq) in fields:
        m = methods.get(name)
        single_level = name in ("ax", "an", "c1", "c2") or case["depth"] >= 1 and (case["lo"] + int(name[1:]) if name.startswith("e") else 0) < 4 * len(KS)
        if m in ("read_only", None):
            if name in ("ax", "an", "c1", "c2") or (name.startswith("e") and case["lo"] + int(name[1:]) < 4 * len(KS)):
                viol.append({"key": "documented-writeable-is-read-only", "msg": "%s: %s has no write method" % (label, name),
                             "detail": {"emb": src}})
            continue
        nwrit += 1
        tbyte = 1 if tgt == "y" else (2 if tgt.startswith("inn") else 0)
        defs.append("VCHECK(%s, %d, %d, %s, %d, %d, %d, %d, %d, %d, %d)" % (
            name, s, c, tgt.replace("inn().a", "inn().a"), tlo, thi, 1 if treq is not None else 0, treq or 0,
            1 if vreq is not None else 0, vreq or 0, tbyte))
        calls.append("  chk_%s();" % name)
    # TGT is used as v2.TGT().Read(): for the nested alias this expands to v2.inn().a().Read()
    drv = DRV.replace("@DEFS@", "\n".join(defs)).replace("@CALLS@", "\n".join(calls))
    headers, err, ex2 = cppdrv.compile_headers({"m.emb": src}, "m.emb")
    with cppdrv.Scratch() as sc:
        res = cppdrv.build_and_run(sc, headers, "m.emb.h", drv, flags=["-O1"])
    if res["compile_rc"] != 0:
        return {"viol": viol + [{"key": "header-does-not-compile", "msg": "%s: %s" % (label, res["compile_err"][-800:]),
                                 "detail": {"emb": src}}], "n": 1}
    if res["run_rc"] != 0:
        return {"viol": viol + [{"key": "driver-crashed", "msg": "%s: rc=%s %s" % (label, res["run_rc"], res["stderr"][-400:]),
                                 "detail": {"emb": src}}], "n": 1}
    out = res["stdout"].decode()
    m = re.search(r"SUMMARY writes=(\d+) mism=(\d+)", out)
    for line in out.split("\n"):
        if line.startswith("MISMATCH"):
            viol.append({"key": "virtual-write-" + line.split(" ")[1], "msg": "%s: %s" % (label, line), "detail": {"emb": src}})
    seen, keep = {}, []
    for v in viol:
        seen[v["key"]] = seen.get(v["key"], 0) + 1
        if seen[v["key"]] <= 3:
            keep.append(v)
    n = int(m.group(1)) if m else 0
    return {"viol": keep, "n": n, "transitions": n, "traces": n, "states": n // 2,
            "nt": ["%s/%s" % (label, f[0]) for f in fields], "stats": {"virtual_fields_written": nwrit, "writes": n}}
