"""Virtual-field write cases for C03 (aliases and invertible +/- shapes)."""


def gen_cases(tier):
    return []


def check_case(case):
    return {"n": 0}
