"""C04 -- checked view operations never leave the buffer or hit undefined behaviour.
The C01 program/buffer space with every checked call enabled (observations, writes with a
value alphabet on every writable field incl. virtuals and array elements, text output with
partial output, UpdateFromText of produced and malformed texts, TryToCopyFrom / Equals
against earlier buffers) on exact-size heap buffers, misaligned bases and truthfully
aligned views, built with -fsanitize=address,undefined and runtime checks enabled."""
import json
import re

from vk import common, cppdrv, cppops, embgen, explore

PROPERTY = "C04"
LEVEL = "exploration"
RULE = ("EmbSpace programs with <=1 (quick) / <=2 (thorough) feature deviations x parameter tuples x all buffers of the "
        "C01 enumeration capped at 1024/4096 buffers per program (exact-size malloc, every 8th also at bases +1..+7 and through MakeAligned...View<8>); per buffer "
        "every checked API call incl. 22 write candidates per writable field, 3 text renderings + read-back + 21 malformed "
        "texts, copy/equals; oracle: ASan+UBSan (-fno-sanitize-recover=all) and EMBOSS_CHECK/DCHECK silent, exit 0. "
        "Non-trivial = program with a dynamic offset/size/condition; distinct by choice vector.")
ASSUMPTIONS = ["g++ 12 ASan/UBSan (thorough: also clang++ 14) as oracle", "x86-64 little-endian host",
               "checked-API discipline as documented: Read only once has_x is true and Ok()"]
TIMEOUT = 2400


def bounds(tier):
    return {"deviations": 1 if tier == "quick" else 2, "compilers": ["g++"] if tier == "quick" else ["g++", "clang++"]}


def gen_cases(tier):
    yield {"kind": "codec", "cxx": "g++"}
    bound = 1 if tier == "quick" else 2
    for forced, trace, prog in explore.enumerate_vectors(embgen.program, bound):
        cap = 1024 if tier == "quick" else 4096
        yield {"vector": explore.vector_of(forced, trace), "cxx": "g++", "cap": cap}
        if tier != "quick" and len(forced) <= 1:
            yield {"vector": explore.vector_of(forced, trace), "cxx": "clang++", "cap": cap}


def classify(stderr):
    m = re.search(r"Assertion `([^']*)' failed", stderr)
    if m:
        a = m.group(1)
        if "has_" in a and "Virtual" in stderr:
            return "virtual-ok-ignores-existence"
        return "runtime-check-failed:" + re.sub(r"\s+", " ", a)[:80]
    m = re.search(r"runtime error: ([^\n]*)", stderr)
    if m and "signed integer overflow" in m.group(1) and "Virtual" in stderr and (
            "CouldWriteValue" in stderr or "TryToWrite" in stderr):
        return "virtual-write-inverse-overflow"
    if m:
        return "ubsan:" + re.sub(r"[0-9x]+", "N", m.group(1))[:80]
    m = re.search(r"ERROR: AddressSanitizer: ([a-z-]+)", stderr)
    if m:
        return "asan:" + m.group(1)
    if "VK:" in stderr:
        return "api-inconsistency"
    return "driver-abnormal-exit"


def check_case(case):
    if case.get("kind") == "codec":
        # the integer text codec over all 8/16-bit values, boundary 32/64-bit values and near-limit / malformed literals, sanitized
        from checks import c06
        r = c06.check_codec(flags=["-O1", "-g", "-fsanitize=address,undefined", "-fno-sanitize-recover=all"], sanitized=True)
        for v in r.get("viol", []):
            if v["key"] == "sanitizer-report-in-text-codec":
                v["key"] = classify(v["msg"])
        r["viol"] = [v for v in r.get("viol", []) if not v["key"].startswith("codec-")]      # value-level verdicts are C06's
        r["nt"] = ["codec"]
        return r
    prog = explore.replay(embgen.program, case["vector"])
    files = prog.files()
    stats = {"programs": 1, "accepted": 0}
    headers, err, ex = cppdrv.compile_headers(files, "m.emb")
    if ex is not None:
        return {"viol": [{"key": common.exc_key(ex), "msg": repr(ex), "detail": {"emb": files}}], "n": 1, "stats": stats}
    if err:
        return {"viol": [], "n": 1, "stats": stats}
    stats["accepted"] = 1
    prog.alphabets = embgen.alphabets_for(prog, cap=case.get("cap", 1024))
    st = prog.module.struct(prog.root)
    extra = lambda pi, args: cppops.ops_section(st, args)
    drv = cppdrv.driver_source(prog.module, prog.root, prog.param_tuples, prog.alphabets,
                               extra_decls=cppops.OPS_PRELUDE + cppops.gen_ops(prog.module) + "\n" + cppops.ops_decls(),
                               extra_sections=extra, observe=False)
    flags = ["-O1", "-g", "-fsanitize=address,undefined", "-fno-sanitize-recover=all", "-fno-omit-frame-pointer"]
    with cppdrv.Scratch() as sc:
        res = cppdrv.build_and_run(sc, headers, "m.emb.h", drv, cxx=case["cxx"], flags=flags, timeout=1500)
    if res["compile_rc"] != 0:
        return {"viol": [{"key": "header-does-not-compile", "msg": res["compile_err"][-700:], "detail": {"emb": files}}],
                "n": 1, "stats": stats}
    nbuf = 1
    prod = 1
    for a in prog.alphabets:
        prod *= len(a)
        nbuf += prod
    nbuf *= len(prog.param_tuples)
    if res["run_rc"] != 0 or res["stderr"].strip():
        key = classify(res["stderr"])
        return {"viol": [{"key": key, "msg": "rc=%s %s" % (res["run_rc"], res["stderr"][:600]),
                          "detail": {"emb": files, "stderr": res["stderr"][:3000], "cxx": case["cxx"]}}],
                "n": nbuf, "stats": stats}
    dynamic = any(x != 0 for _t, _i, x in case["vector"])
    return {"viol": [], "n": nbuf, "nt": [json.dumps(case["vector"])] if dynamic else [], "stats": stats}


def sample_of(case):
    if case.get("kind") == "codec":
        return {"kind": "codec", "what": "integer text codec sweep under ASan+UBSan"}
    prog = explore.replay(embgen.program, case["vector"])
    return {"choice_vector": case["vector"], "compiler": case["cxx"], "emb": prog.files()["m.emb"]}
