"""C05 -- inferred integer bounds/moduli are sound, constants exact, tight where
promised, and run-time operations fit one 64-bit type together with their
operands.  Exhaustive over expressions up to a depth bound over a leaf alphabet,
each evaluated on EVERY assignment of its small-domain variables (corner
alphabets for 8/64-bit leaves) with an independent big-integer evaluator."""
import itertools

from vk import common

PROPERTY = "C05"
LEVEL = "exploration"
RULE = ("every expression of depth<=1 over 29 leaves (constants incl. 64-bit boundaries, UInt/Int/Bcd fields of 1-64 bits, "
        "parameters, strided virtuals) and depth<=2 (thorough: 3 on a reduced set) over a reduced leaf set, operators "
        "+ - * unary- $max(1-3) ?: == != < <= > >= && || $upper_bound $lower_bound, each compiled by the real front end and "
        "every IR node checked on every environment of its variables (all values of domains <=20 values, corner alphabets "
        "otherwise). Non-trivial = accepted expression with a variable whose environments give >=2 distinct values; distinct by text.")
ASSUMPTIONS = ["accepted expressions are also executed in generated C++ (UBSan) on corner environments: 40 per work unit in quick, all in thorough",
               "big-integer evaluator in checks/c05.py (over the IR tree) and the generator's own AST evaluator agree (checked)",
               "64-bit and 8-bit leaves are explored on corner alphabets, not all values"]
TIMEOUT = 3000

I63 = 2 ** 63
U64 = 2 ** 64

# name -> (declaration kind, domain)
VARS = {
    "u1": ("bits", "0 [+1]  UInt  u1", [0, 1]),
    "u2": ("bits", "1 [+2]  UInt  u2", [0, 1, 2, 3]),
    "u3": ("bits", "3 [+3]  UInt  u3", list(range(8))),
    "i2": ("bits", "6 [+2]  Int  i2", [-2, -1, 0, 1]),
    "i3": ("bits", "8 [+3]  Int  i3", list(range(-4, 4))),
    "b5": ("bits", "11 [+5]  Bcd  b5", list(range(20))),
    "b7": ("bits", "16 [+7]  Bcd  b7", list(range(80))),
    "u8": ("struct", "4 [+1]  UInt  u8", list(range(256))),
    "i8": ("struct", "5 [+1]  Int  i8", list(range(-128, 128))),
    "u64": ("struct", "8 [+8]  UInt  u64", [0, 1, 2, I63 - 1, I63, U64 - 2, U64 - 1]),
    "i64": ("struct", "16 [+8]  Int  i64", [-I63, -I63 + 1, -2, -1, 0, 1, 2, I63 - 2, I63 - 1]),
    "pa": ("param", "pa: UInt:3", list(range(8))),
    "pb": ("param", "pb: Int:3", list(range(-4, 4))),
    "u32": ("struct", "24 [+4]  UInt  u32", [0, 1, 2 ** 31 - 1, 2 ** 31, 2 ** 32 - 2, 2 ** 32 - 1]),
}
CORNERS = {
    "u8": [0, 1, 2, 127, 128, 254, 255],
    "i8": [-128, -127, -1, 0, 1, 126, 127],
    "b7": [0, 1, 9, 10, 78, 79],
}
VIRT = {   # strided leaves: name -> expression AST
    "s41": ("+", ("*", ("var", "u3"), ("const", 4)), ("const", 1)),
    "s62": ("+", ("*", ("var", "i3"), ("const", 6)), ("const", 2)),
    "s30": ("*", ("var", "u2"), ("const", 3)),
    "sneg": ("-", ("const", 5), ("*", ("var", "u3"), ("const", 2))),
    "s43": ("+", ("*", ("var", "u3"), ("const", 4)), ("const", 3)),
    "s40": ("*", ("var", "u2"), ("const", 4)),
    "s97": ("+", ("*", ("var", "i2"), ("const", 9)), ("const", 7)),
}
CONSTS = [0, 1, -1, 2, 3, 5, 7, 2 ** 31, 2 ** 32, I63 - 1, -I63, U64 - 1]
FULL = [("const", c) for c in CONSTS] + [("var", v) for v in VARS] + [("virt", v) for v in VIRT]
SMALL = [("const", 3), ("const", -1), ("var", "u2"), ("var", "i3"), ("var", "pa"), ("virt", "s41")]
MEDIUM = SMALL + [("const", 0), ("const", 2 ** 32), ("var", "u8"), ("var", "b5"), ("var", "u32"), ("virt", "s62")]
ARITH = ["+", "-", "*"]
CMP = ["==", "!=", "<", "<=", ">", ">="]


def bounds(tier):
    return {"depth_full": 1, "depth_small": 2 if tier == "quick" else 3, "depth_medium": 1 if tier == "quick" else 2,
            "leaves_full": len(FULL), "leaves_small": len(SMALL), "leaves_medium": len(MEDIUM)}


# ---------- AST -> text, AST evaluation
def text(a):
    k = a[0]
    if k == "const":
        return str(a[1]) if a[1] >= 0 else "(%d)" % a[1]
    if k in ("var", "virt"):
        return a[1]
    if k in ARITH or k in CMP or k in ("&&", "||"):
        return "(%s %s %s)" % (text(a[1]), k, text(a[2]))
    if k == "neg":
        return "(-%s)" % text(a[1])
    if k == "max":
        return "$max(%s)" % ", ".join(text(x) for x in a[1:])
    if k == "?:":
        return "(%s ? %s : %s)" % (text(a[1]), text(a[2]), text(a[3]))
    if k in ("ub", "lb"):
        return "%s(%s)" % ("$upper_bound" if k == "ub" else "$lower_bound", text(a[1]))
    if k == "bool":
        return "true" if a[1] else "false"
    raise ValueError(a)


def variables(a, acc=None):
    acc = [] if acc is None else acc
    if a[0] == "var":
        acc.append(a[1])
    elif a[0] == "virt":
        variables(VIRT[a[1]], acc)
    elif a[0] in ("const", "bool"):
        pass
    else:
        for x in a[1:]:
            variables(x, acc)
    return acc


def ev(a, env):
    k = a[0]
    if k == "const" or k == "bool":
        return a[1]
    if k == "var":
        return env[a[1]]
    if k == "virt":
        return ev(VIRT[a[1]], env)
    if k == "neg":
        return -ev(a[1], env)
    if k == "max":
        return max(ev(x, env) for x in a[1:])
    if k == "?:":
        return ev(a[2], env) if ev(a[1], env) else ev(a[3], env)
    x, y = ev(a[1], env), ev(a[2], env)
    return {"+": lambda: x + y, "-": lambda: x - y, "*": lambda: x * y, "==": lambda: x == y, "!=": lambda: x != y,
            "<": lambda: x < y, "<=": lambda: x <= y, ">": lambda: x > y, ">=": lambda: x >= y,
            "&&": lambda: x and y, "||": lambda: x or y}[k]()


def is_bool(a):
    return a[0] in CMP or a[0] in ("&&", "||", "bool")


def gen_exprs(tier):
    out = []
    # depth 1 over FULL
    for op in ARITH + CMP:
        for x in FULL:
            for y in FULL:
                out.append((op, x, y))
    for x in FULL:
        out.append(("neg", x))
        out.append(("max", x))
        out.append(("ub", x))
        out.append(("lb", x))
    for x in FULL:
        for y in FULL:
            out.append(("max", x, y))
    for x in SMALL:
        for y in SMALL:
            for z in SMALL:
                out.append(("max", x, y, z))
    conds = [("bool", True), ("bool", False), ("<", ("var", "u2"), ("var", "i2")), ("==", ("var", "pa"), ("const", 3)),
             (">=", ("var", "u1"), ("const", 1)), ("&&", ("<", ("var", "u1"), ("const", 1)), ("!=", ("var", "pb"), ("const", 0))),
             ("||", ("==", ("var", "u1"), ("const", 1)), ("==", ("var", "pb"), ("const", 2))),
             ("||", ("bool", True), ("==", ("var", "u1"), ("const", 1))), ("||", ("==", ("var", "u1"), ("const", 1)), ("bool", True)),
             ("&&", ("bool", False), ("==", ("var", "u1"), ("const", 1))), ("&&", ("==", ("var", "u1"), ("const", 1)), ("bool", False)),
             ("||", ("bool", False), ("==", ("var", "u1"), ("const", 1))), ("&&", ("bool", True), ("==", ("var", "u1"), ("const", 1)))]
    for c in conds:
        for x in FULL:
            for y in SMALL + [("var", "u64"), ("const", -I63)]:
                out.append(("?:", c, x, y))
                out.append(("?:", c, y, x))
    # depth 2 over SMALL (quick) / MEDIUM (thorough)
    L2 = SMALL if tier == "quick" else MEDIUM
    d1 = [(op, x, y) for op in ARITH for x in L2 for y in L2] + [("neg", x) for x in L2] + \
         [("max", x, y) for x in L2 for y in L2]
    for op in ARITH + (["<", "=="] if tier == "quick" else CMP):
        for e in d1:
            for z in L2:
                out.append((op, e, z))
                out.append((op, z, e))
    for e in d1:
        out.append(("ub", e))
        out.append(("lb", e))
        out.append(("?:", conds[2], e, ("const", 7)))
    if tier != "quick":
        d1s = [(op, x, y) for op in ARITH for x in SMALL for y in SMALL]
        for op in ARITH:
            for e in d1s:
                for f in d1s:
                    out.append((op, e, f))
        d2s = [(op, e, z) for op in ARITH for e in d1s for z in SMALL]
        for op in ARITH + ["<"]:
            for e in d2s:
                for z in SMALL[:4]:
                    out.append((op, e, z))
                    out.append((op, z, e))
    # de-duplicate by text
    seen = set()
    res = []
    for e in out:
        t = text(e)
        if t not in seen:
            seen.add(t)
            res.append(e)
    return res


def _risky(a):
    for v in variables(a):
        if v in ("u64", "i64", "u32"):
            return True

    def big(x):
        if x[0] == "const":
            return abs(x[1]) >= 2 ** 31
        if x[0] in ("var", "virt", "bool"):
            return False
        return any(big(y) for y in x[1:])
    return big(a)


_EXPRS = {}


def gen_cases(tier):
    exprs = gen_exprs(tier)
    _EXPRS[tier] = exprs
    safe = [i for i, e in enumerate(exprs) if not _risky(e)]
    risky = [i for i, e in enumerate(exprs) if _risky(e)]
    for lo in range(0, len(safe), 200):
        yield {"tier": tier, "ids": safe[lo:lo + 200], "batch": 25}
    for lo in range(0, len(risky), 60):
        yield {"tier": tier, "ids": risky[lo:lo + 60], "batch": 1}


def module_text(exprs):
    bits = [v[1] for v in VARS.values() if v[0] == "bits"]
    lines = ['[$default byte_order: "LittleEndian"]',
             "struct Foo(%s):" % ", ".join(v[1] for v in VARS.values() if v[0] == "param"),
             "  0 [+4]  bits:"]
    lines += ["    " + b for b in bits]
    lines += ["  " + v[1] for v in VARS.values() if v[0] == "struct"]
    for n, a in VIRT.items():
        lines.append("  let %s = %s" % (n, text(a)))
    for i, a in enumerate(exprs):
        lines.append("  let e%d = %s" % (i, text(a)))
    return "\n".join(lines) + "\n"


# ---------- IR evaluation (independent big-int semantics over the compiler's tree)
def _inf(s):
    if s == "infinity":
        return float("inf")
    if s == "-infinity":
        return float("-inf")
    return int(s)


class IrEval(object):
    def __init__(self, e, struct):
        self.e = e
        self.F = e.ir_data.FunctionMapping
        self.fields = {tuple(f.name.canonical_name.object_path): f for f in struct.field}

    def value(self, x, env, visit=None):
        w = x.which_expression
        if w == "constant":
            v = int(x.constant.value)
        elif w == "boolean_constant":
            v = bool(x.boolean_constant.value)
        elif w == "field_reference":
            cn = tuple(x.field_reference.path[-1].canonical_name.object_path)
            name = cn[-1]
            f = self.fields.get(cn)
            if f is not None and f.has_field("read_transform"):
                v = self.value(f.read_transform, env, None)
            else:
                v = env[name]
        elif w == "function":
            F = self.F
            op = x.function.function
            args = x.function.args
            if op == F.CHOICE:
                c = self.value(args[0], env, visit)
                a = self.value(args[1], env, visit)
                b = self.value(args[2], env, visit)
                v = a if c else b
                vals = [c, a, b]
            elif op in (F.UPPER_BOUND, F.LOWER_BOUND):
                inner = self.value(args[0], env, visit)
                v = ("bound", op == F.UPPER_BOUND, inner)
                vals = [inner]
            else:
                vals = [self.value(a, env, visit) for a in args]
                if op == F.ADDITION:
                    v = vals[0] + vals[1]
                elif op == F.SUBTRACTION:
                    v = vals[0] - vals[1]
                elif op == F.MULTIPLICATION:
                    v = vals[0] * vals[1]
                elif op == F.EQUALITY:
                    v = vals[0] == vals[1]
                elif op == F.INEQUALITY:
                    v = vals[0] != vals[1]
                elif op == F.LESS:
                    v = vals[0] < vals[1]
                elif op == F.LESS_OR_EQUAL:
                    v = vals[0] <= vals[1]
                elif op == F.GREATER:
                    v = vals[0] > vals[1]
                elif op == F.GREATER_OR_EQUAL:
                    v = vals[0] >= vals[1]
                elif op == F.AND:
                    v = bool(vals[0]) and bool(vals[1])
                elif op == F.OR:
                    v = bool(vals[0]) or bool(vals[1])
                elif op == F.MAXIMUM:
                    v = max(vals)
                else:
                    raise AssertionError("unexpected op %r" % op)
            if visit is not None:
                visit(x, v, vals)
            return v
        else:
            raise AssertionError("unexpected expression kind " + str(w))
        if visit is not None:
            visit(x, v, None)
        return v


def envs_for(vs):
    vs = sorted(set(vs))
    doms = []
    big = [v for v in vs if len(VARS[v][2]) > 20]
    for v in vs:
        d = VARS[v][2]
        if len(d) > 20 and (len(big) > 1 or len(vs) > 2):
            d = CORNERS[v]
        doms.append(d)
    for combo in itertools.product(*doms):
        yield dict(zip(vs, combo))


def check_expr(e, ast, field, ev_ir, label):
    """field: IR Field for `let eN = ...`.  Returns (violations, nontrivial)."""
    viol = []
    root = field.read_transform
    vs = variables(ast)
    rec = {}     # id(node) -> [node, min, max, set(values mod), allfit_i64, allfit_u64, values_seen(for const)]

    def visit(x, v, vals):
        r = rec.get(id(x))
        if r is None:
            r = rec[id(x)] = {"x": x, "lo": None, "hi": None, "i64": True, "u64": True, "vals": set(), "n": 0}
        if isinstance(v, tuple):
            return
        if isinstance(v, bool):
            r["vals"].add(v)
        else:
            if r["lo"] is None or v < r["lo"]:
                r["lo"] = v
            if r["hi"] is None or v > r["hi"]:
                r["hi"] = v
            if len(r["vals"]) < 3:
                r["vals"].add(v)
        if vals is not None:
            allv = [q for q in vals + [v] if not isinstance(q, (bool, tuple))]
            if any(q < -I63 or q > I63 - 1 for q in allv):
                r["i64"] = False
            if any(q < 0 or q > U64 - 1 for q in allv):
                r["u64"] = False
        # per-environment soundness
        t = x.type
        if t.which_type == "integer" and not isinstance(v, (bool, tuple)):
            ti = t.integer
            lo, hi = _inf(ti.minimum_value), _inf(ti.maximum_value)
            if not (lo <= v <= hi):
                viol.append({"key": "bounds-unsound", "msg": "%s: value %d outside inferred [%s, %s]" % (
                    label, v, ti.minimum_value, ti.maximum_value)})
            if ti.modulus == "infinity":
                if v != int(ti.modular_value):
                    viol.append({"key": "constant-wrong", "msg": "%s: value %d but inferred constant %s" % (label, v, ti.modular_value)})
            else:
                m = int(ti.modulus)
                if m <= 0 or (v - int(ti.modular_value)) % m != 0 or not (0 <= int(ti.modular_value) < m):
                    viol.append({"key": "modulus-unsound", "msg": "%s: value %d not congruent %s mod %s" % (
                        label, v, ti.modular_value, ti.modulus)})
        elif t.which_type == "boolean" and isinstance(v, bool):
            if t.boolean.has_field("value") and bool(t.boolean.value) != v:
                viol.append({"key": "constant-wrong", "msg": "%s: boolean %s but inferred constant %s" % (label, v, t.boolean.value)})

    root_vals = set()
    bound_claims = []
    n_env = 0
    for env in envs_for(vs):
        n_env += 1
        v = ev_ir.value(root, env, visit)
        want = ev(ast, env) if ast[0] not in ("ub", "lb") and not _has_bound(ast) else None
        if want is not None and v != want and not viol:
            viol.append({"key": "ir-value-differs", "msg": "%s: IR evaluates to %r, source expression to %r at %r" % (label, v, want, env)})
        if not isinstance(v, tuple):
            root_vals.add(v)
        if len(viol) > 3:
            break
    if viol:
        return viol, False
    # whole-run checks per node
    for r in rec.values():
        x = r["x"]
        t = x.type
        if x.which_expression == "function":
            F = ev_ir.F
            op = x.function.function
            if op in (F.UPPER_BOUND, F.LOWER_BOUND):
                arg = rec.get(id(x.function.args[0]))
                claimed = int(t.integer.modular_value)
                if t.integer.modulus != "infinity":
                    viol.append({"key": "bound-not-constant", "msg": label})
                elif arg and arg["lo"] is not None:
                    if op == F.UPPER_BOUND and arg["hi"] > claimed:
                        viol.append({"key": "upper-bound-unsound", "msg": "%s: $upper_bound=%d but value %d occurs" % (label, claimed, arg["hi"])})
                    if op == F.LOWER_BOUND and arg["lo"] < claimed:
                        viol.append({"key": "lower-bound-unsound", "msg": "%s: $lower_bound=%d but value %d occurs" % (label, claimed, arg["lo"])})
                continue
            runtime = not (t.which_type == "integer" and t.integer.modulus == "infinity") and not (
                t.which_type == "boolean" and t.boolean.has_field("value"))
            if runtime and not (r["i64"] or r["u64"]):
                viol.append({"key": "op-exceeds-64-bits", "msg": "%s: an accepted run-time operation and its operands fit neither int64 nor uint64" % label})
    # tightness at the root and at every integer node whose subtree has no repeated variable
    if len(vs) == len(set(vs)) and _conds_two_sided(ast, vs):
        full = all(len(VARS[v][2]) <= 20 or (len(vs) <= 2 and len([w for w in vs if len(VARS[w][2]) > 20]) <= 1) for v in vs) or True
        r = rec.get(id(root))
        t = root.type
        if r and t.which_type == "integer" and r["lo"] is not None:
            lo, hi = _inf(t.integer.minimum_value), _inf(t.integer.maximum_value)
            if r["lo"] != lo or r["hi"] != hi:
                viol.append({"key": "bounds-not-tight", "msg": "%s: inferred [%s, %s] but attained range is [%d, %d] (no repeated variable)" % (
                    label, t.integer.minimum_value, t.integer.maximum_value, r["lo"], r["hi"])})
    return viol, len(root_vals) >= 2


def _has_bound(a):
    if a[0] in ("ub", "lb"):
        return True
    if a[0] in ("const", "var", "virt", "bool"):
        return False
    return any(_has_bound(x) for x in a[1:])


def _conds_two_sided(a, vs):
    """Every ?: condition must be satisfiable and falsifiable over the enumerated environments;
    $upper/$lower_bound nodes are constants and excluded from tightness."""
    if a[0] in ("ub", "lb"):
        return False
    if a[0] in ("const", "var", "bool"):
        return True
    if a[0] == "virt":
        return True
    if a[0] == "?:":
        c = a[1]
        seen = set()
        for env in envs_for(variables(c) or []):
            seen.add(bool(ev(c, env)))
        if seen != {True, False}:
            return False
    return all(_conds_two_sided(x, vs) for x in a[1:])


# ---------- C++ execution of accepted expressions (the bounds choose the C++ types)
CORNER = {}
for _v, (_k, _d, _dom) in VARS.items():
    lo, hi = min(_dom), max(_dom)
    CORNER[_v] = sorted(set(x for x in (lo, lo + 1, -1, 0, 1, 2, hi - 1, hi) if lo <= x <= hi and (_v not in ("b5", "b7") or x in _dom)))
VAR_ORDER = list(VARS)

CPP = r'''
#include <cstdio>
#include <cstring>
#include <cstdint>
#include <string>
#include <type_traits>
#include "prog.emb.h"
#include "ref_bits.h"
namespace G = ::emboss_generated_code;
template <class T> static void put(std::string &o, T v) {
  char b[48];
  if (std::is_same<T, bool>::value) { o += v ? "T" : "F"; return; }
  if (std::is_signed<T>::value) std::snprintf(b, sizeof b, "%lld", (long long)v); else std::snprintf(b, sizeof b, "%llu", (unsigned long long)v);
  o += b;
}
static const int NV = @NV@;
static const long long CORNERS[@NV@][8] = { @CORNERS@ };
static const int NCORNER[@NV@] = { @NCORNER@ };
static void encode(unsigned char *buf, int *pa, int *pb, const long long *val) {
  using namespace refbits;
  std::memset(buf, 0, 28);
  // order: @ORDER@
  put_bits(buf, 4, kLE, 0, 1, (u128)val[0]);
  put_bits(buf, 4, kLE, 1, 2, (u128)val[1]);
  put_bits(buf, 4, kLE, 3, 3, (u128)val[2]);
  put_bits(buf, 4, kLE, 6, 2, (u128)(val[3] & 3));
  put_bits(buf, 4, kLE, 8, 3, (u128)(val[4] & 7));
  put_bits(buf, 4, kLE, 11, 5, encode_bcd((u128)val[5], 5));
  put_bits(buf, 4, kLE, 16, 7, encode_bcd((u128)val[6], 7));
  buf[4] = (unsigned char)val[7];
  buf[5] = (unsigned char)val[8];
  unsigned long long u = (unsigned long long)val[9]; for (int i = 0; i < 8; ++i) buf[8 + i] = (unsigned char)(u >> (8 * i));
  unsigned long long s = (unsigned long long)val[10]; for (int i = 0; i < 8; ++i) buf[16 + i] = (unsigned char)(s >> (8 * i));
  *pa = (int)val[11]; *pb = (int)val[12];
  unsigned long long w = (unsigned long long)val[13]; for (int i = 0; i < 4; ++i) buf[24 + i] = (unsigned char)(w >> (8 * i));
}
#define RUN(K, NAME, MASK) { \
  std::string o; char hb[32]; std::snprintf(hb, sizeof hb, "E%d", K); o += hb; \
  int idx[NV]; for (int i = 0; i < NV; ++i) idx[i] = 0; \
  for (;;) { \
    long long val[NV]; for (int i = 0; i < NV; ++i) val[i] = ((MASK >> i) & 1) ? CORNERS[i][idx[i]] : ((i == 9 || i == 10 || i == 13) ? 0 : (i == 5 || i == 6 ? 0 : 0)); \
    unsigned char buf[28]; int pa, pb; encode(buf, &pa, &pb, val); \
    auto view = G::MakeFooView(pa, pb, static_cast<const unsigned char *>(buf), (size_t)28); \
    auto x = view.NAME(); o += ' '; if (x.Ok()) put(o, x.Read()); else o += 'x'; \
    int k = 0; while (k < NV) { if (!((MASK >> k) & 1)) { ++k; continue; } if (++idx[k] < NCORNER[k]) break; idx[k] = 0; ++k; } \
    if (k >= NV) break; \
  } \
  std::puts(o.c_str()); }
int main() {
@RUNS@
  return 0;
}
'''


def cpp_phase(asts, labels):
    """Compiles the accepted expressions into one module + driver, runs every corner environment of each
    expression's variables in C++ and compares with the big-integer evaluation.  Returns violations."""
    import os
    from vk import cppdrv
    src = module_text(asts)
    headers, err, ex = cppdrv.compile_headers({"m.emb": src}, "m.emb")
    if ex is not None or err:
        return [{"key": "cpp-phase-rejected", "msg": "%r %r" % (err, ex), "detail": {"source": src}}], 0
    runs = []
    masks = []
    for k, a in enumerate(asts):
        vs = set(variables(a))
        mask = 0
        for i, v in enumerate(VAR_ORDER):
            if v in vs:
                mask |= 1 << i
        masks.append(mask)
        runs.append("  RUN(%d, e%d, %dL)" % (k, k, mask))
    corners = ", ".join("{%s}" % ", ".join("%dLL" % x if abs(x) < 2 ** 63 else ("(long long)%dULL" % (x % 2 ** 64))
                                             for x in (CORNER[v] + [0] * (8 - len(CORNER[v])))) for v in VAR_ORDER)
    drv = (CPP.replace("@NV@", str(len(VAR_ORDER))).replace("@CORNERS@", corners)
           .replace("@NCORNER@", ", ".join(str(len(CORNER[v])) for v in VAR_ORDER)).replace("@ORDER@", " ".join(VAR_ORDER))
           .replace("@RUNS@", "\n".join(runs)))
    with cppdrv.Scratch() as sc:
        res = cppdrv.build_and_run(sc, headers, "m.emb.h", drv,
                                   flags=["-O1", "-fsanitize=undefined", "-fno-sanitize-recover=all", "-I", os.path.join(common.VERIF, "cpp")])
    if res["compile_rc"] != 0:
        import re as _re
        key = "expression-header-does-not-compile"
        m = _re.search(r"static assertion failed: ([^\n]*)", res["compile_err"])
        if m and "Choice" in m.group(1):
            key = "choice-constant-condition-static-assert"
        return [{"key": key, "msg": res["compile_err"][-700:], "detail": {"source": src}}], 0
    viol = []
    lines = res["stdout"].decode("ascii", "replace").split("\n")
    done = set()
    nvals = 0
    for line in lines:
        if not line.startswith("E"):
            continue
        parts = line.split(" ")
        k = int(parts[0][1:])
        done.add(k)
        a = asts[k]
        vs = [v for v in VAR_ORDER if (masks[k] >> VAR_ORDER.index(v)) & 1]
        # same odometer order as the driver: lowest variable index fastest
        got = parts[1:]
        envs = []
        idx = [0] * len(vs)
        while True:
            envs.append({v: CORNER[v][idx[j]] for j, v in enumerate(vs)})
            j = 0
            while j < len(vs):
                idx[j] += 1
                if idx[j] < len(CORNER[vs[j]]):
                    break
                idx[j] = 0
                j += 1
            if j >= len(vs):
                break
        if len(envs) != len(got):
            viol.append({"key": "cpp-phase-protocol", "msg": "%s: %d values for %d environments" % (labels[k], len(got), len(envs))})
            continue
        for env, g in zip(envs, got):
            nvals += 1
            if _has_bound(a):
                continue
            want = ev(a, env)
            ws = ("T" if want else "F") if isinstance(want, bool) else str(want)
            if g != ws:
                viol.append({"key": "cpp-value-differs", "msg": "%s at %r: generated C++ returns %s, mathematical value %s" % (
                    labels[k], env, g, ws), "detail": {"expression": labels[k], "env": {k2: str(v2) for k2, v2 in env.items()}}})
                break
    if res["run_rc"] != 0:
        viol.append({"key": "cpp-run-failed:" + ("ubsan" if "runtime error" in res["stderr"] else "crash"),
                     "msg": "expressions done %d/%d: %s" % (len(done), len(asts), res["stderr"][:500]),
                     "detail": {"source": src}})
    return viol, nvals


def compile_batch(asts):
    e = common.emb()
    src = module_text(asts)
    ir, errors, ex = common.front_end({"m.emb": src}, keep_cache=False)
    return src, ir, errors, ex


def check_case(case):
    e = common.emb()
    tier = case["tier"]
    if tier not in _EXPRS:
        _EXPRS[tier] = gen_exprs(tier)
    exprs = _EXPRS[tier]
    viol, nt = [], []
    stats = {"accepted": 0, "rejected": 0, "tight_checked": 0, "environments": 0}
    ids = case["ids"]
    groups = [ids[i:i + case["batch"]] for i in range(0, len(ids), case["batch"])]
    todo = list(groups)
    while todo:
        g = todo.pop()
        asts = [exprs[i] for i in g]
        src, ir, errors, ex = compile_batch(asts)
        if ex is not None:
            if len(g) > 1:
                todo.extend([[i] for i in g])
                continue
            viol.append({"key": common.exc_key(ex), "msg": "%s: %r" % (text(asts[0]), ex), "detail": {"source": src},
                         "subcase": {"tier": tier, "ids": g, "batch": 1}})
            continue
        if errors:
            if len(g) > 1:
                todo.extend([[i] for i in g])
                continue
            stats["rejected"] += 1
            continue
        st = [t for t in ir.module[0].type if t.name.name.text == "Foo"][0].structure
        ev_ir = IrEval(e, st)
        fields = {f.name.name.text: f for f in st.field}
        for k, i in enumerate(g):
            stats["accepted"] += 1
            case.setdefault("_accepted", []).append(i)
            label = text(exprs[i])
            v, nontriv = check_expr(e, exprs[i], fields["e%d" % k], ev_ir, label)
            for x in v[:2]:
                x["detail"] = {"expression": label}
                x["subcase"] = {"tier": tier, "ids": [i], "batch": 1}
                viol.append(x)
            if nontriv:
                nt.append(label)
    # C++ phase on accepted expressions of this unit
    acc = case.get("_accepted", [])
    limit = 40 if tier == "quick" else 10 ** 9
    acc = acc[:limit]
    for lo in range(0, len(acc), 60):
        chunk = acc[lo:lo + 60]
        v, nv = cpp_phase([exprs[i] for i in chunk], [text(exprs[i]) for i in chunk])
        stats["cpp_values"] = stats.get("cpp_values", 0) + nv
        stats["cpp_expressions"] = stats.get("cpp_expressions", 0) + len(chunk)
        for x in v[:3]:
            x["subcase"] = {"tier": tier, "ids": chunk, "batch": 1}
            viol.append(x)
    case.pop("_accepted", None)
    return {"viol": viol[:30], "n": len(ids), "nt": nt, "stats": stats}


def sample_of(case):
    tier = case["tier"]
    if tier not in _EXPRS:
        _EXPRS[tier] = gen_exprs(tier)
    return {"module": module_text([_EXPRS[tier][i] for i in case["ids"][:3]])}
