"""C17 -- compilation is a pure function of its input files.
(1) explicit-state over the process-wide mutable state: ALL histories up to a length bound of
    compile / split-compile / format operations over six source sets, each executed in a fork
    of a pristine process; every step's (IR JSON, header, diagnostics) must equal the same
    operation in a fresh process (up to renumbering of reserved anonymous identifiers);
(2) fresh embossc / emboss-format processes under an alphabet of PYTHONHASHSEED values, with
    import directories listing identical copies in both orders."""
import itertools
import json
import os
import shutil
import subprocess
import sys
import tempfile

from vk import common

PROPERTY = "C17"
LEVEL = "model_checking"
RULE = ("all histories of length <=3 (quick) / <=4 (thorough) over 10 operations {compile A..F, split-compile A,B, format A,C} "
        "(A anonymous bits, B imports A, C syntax error, D two dependency cycles + duplicate + ambiguous names, E = A's text "
        "under another file name, F back-end attribute errors), each in a fork of a pristine process; canonical process state "
        "= (cached module names, anonymous-name counter, reserved words loaded); plus embossc and emboss-format as fresh "
        "processes under PYTHONHASHSEED in 8 (quick) / 32 (thorough) values offset by VERIF_SEED and both import-directory "
        "orders. Oracle: equality with the fresh-process result. Non-trivial = history of length >=2; distinct by history.")
ASSUMPTIONS = ["PYTHONHASHSEED is an 8/32-value alphabet of a 2^32 space (cannot be exhausted)",
               "outputs are compared up to renumbering of emboss_reserved_anonymous_field_N by first occurrence"]
TIMEOUT = 2400

A_TEXT = '''[$default byte_order: "LittleEndian"]
struct Aa:
  0 [+1]  bits:
    0 [+4]  UInt  lo
    4 [+4]  UInt  hi
  1 [+1]  bits:
    0 [+1]  Flag  f
  if lo == 1:
    2 [+2]  UInt  x
'''
B_TEXT = '''import "a.emb" as a
[$default byte_order: "BigEndian"]
struct Bb:
  0 [+4]  a.Aa  inner
  4 [+1]  bits:
    0 [+8]  UInt  z
'''
C_TEXT = '''struct Cc:
  0 [+1  UInt  x
'''
D_TEXT = '''[$default byte_order: "LittleEndian"]
struct Dd:
  let a = b + 1
  let b = a + 1
  let c = d + 1
  let d = c + 1
  0 [+1]  UInt  x
  1 [+1]  UInt  x
enum Ee:
  PP = QQ
  QQ = PP
struct UInt:
  0 [+1]  Dd  q
'''
F_TEXT = '''[expected_back_ends: "cpp, rust, go, java, swift"]
[(fortran) namespace: "x"]
[(cobol) namespace: "y"]
struct Ff:
  0 [+1]  UInt  x
    [(ada) thing: 1]
'''
G_TEXT = '''[$default byte_order: "LittleEndian"]
struct Gg:
  0 [+1]  UInt  while
  1 [+1]  UInt  class
  2 [+1]  UInt  q
    [byte_order: 5]
  3 [+99999999999999999999999]  UInt:8[]  big
  let r = q +
'''
SOURCES = {
    "A": {"files": {"a.emb": A_TEXT}, "main": "a.emb"},
    "B": {"files": {"b.emb": B_TEXT, "a.emb": A_TEXT}, "main": "b.emb"},
    "C": {"files": {"c.emb": C_TEXT}, "main": "c.emb"},
    "D": {"files": {"d.emb": D_TEXT}, "main": "d.emb"},
    "E": {"files": {"e.emb": A_TEXT}, "main": "e.emb"},
    "F": {"files": {"f.emb": F_TEXT}, "main": "f.emb"},
}
# two source sets whose files have the *same names* but differ in the imported module's C++ namespace and layout
_N_DEP = '[$default byte_order: "LittleEndian"]\n[(cpp) namespace: "vendor::%s"]\nenum Kind:\n  KA = %d\nstruct Header:\n  0 [+%d]  UInt  h\n'
_N_MAIN = ('import "dep.emb" as dep\n[$default byte_order: "LittleEndian"]\n[(cpp) namespace: "app"]\n'
           "struct Nn:\n  0 [+%d]  dep.Header  hdr\n  4 [+1]  dep.Kind  kind\n  let isk = kind == dep.Kind.KA\n")
SOURCES["N1"] = {"files": {"n.emb": _N_MAIN % 1, "dep.emb": _N_DEP % ("v1", 1, 1)}, "main": "n.emb"}
SOURCES["N2"] = {"files": {"n.emb": _N_MAIN % 2, "dep.emb": _N_DEP % ("v2", 2, 2)}, "main": "n.emb"}
OPS = ["compile:A", "compile:B", "compile:C", "compile:D", "compile:E", "compile:F", "split:A", "split:B", "format:A", "format:C"]
OPS2 = ["compile:N1", "compile:N2", "split:N1", "split:N2", "compile:B"]
HASH_SOURCES = dict(SOURCES)
HASH_SOURCES["G"] = {"files": {"g.emb": G_TEXT.replace("  let r = q +\n", "")}, "main": "g.emb"}
_imps = {"i%d.emb" % k: "struct S%s:\n  0 [+1]  UInt  x\n" % "abcdef"[k].upper() + "x" for k in range(6)}
_imps = {"i%d.emb" % k: "struct T%sx:\n  0 [+1]  UInt  x\n" % "abcdef"[k] for k in range(6)}
HASH_SOURCES["I"] = {"files": dict(_imps, **{"i.emb": "".join('import "i%d.emb" as m%d\n' % (k, k) for k in (3, 0, 5, 1, 4, 2)) +
                                              "struct Ii:\n" + "".join("  %d [+1]  m%d.T%sx  f%d\n" % (k, k, "abcdef"[k], k) for k in range(6))}),
                     "main": "i.emb"}
# one source per *pass* that can report several independent errors at once (a source with errors in two passes only
# ever shows the first pass's): J = dependency cycles, K = type errors, L = constraint violations, M = unresolved names
HASH_SOURCES["J"] = {"files": {"j.emb": """[$default byte_order: "LittleEndian"]
struct Jj:
  let a = b + 1
  let b = a + 1
  let c = d + 1
  let d = e + 1
  let e = c + 1
  0 [+1]  UInt  x
struct Kk:
  let p = q
  let q = p
  0 [+r]  UInt  s
  let r = s
enum Ee:
  PP = QQ
  QQ = RR
  RR = PP
  SS = TT
  TT = SS
"""}, "main": "j.emb"}
HASH_SOURCES["K"] = {"files": {"k.emb": """[$default byte_order: "LittleEndian"]
enum En:
  VV = 1
struct Kt:
  0 [+1]  UInt  x
  let a = x + true
  let b = En.VV + 1
  let c = x == En.VV
  let d = true ? x : En.VV
  let e = $max(x, true)
  if x:
    1 [+1]  UInt  y
  2 [+En.VV]  UInt  z
"""}, "main": "k.emb"}
HASH_SOURCES["L"] = {"files": {"l.emb": """[$default byte_order: "LittleEndian"]
enum En:
  VV = 1
  WW = 99999999999999999999999
bits Bt:
  0 [+3]  En  e
  0 [+70]  UInt  wide
struct Lt:
  0 [+16]  UInt  a
  0 [+3]  Float  b
  0 [+2]  Bcd:12  c
  0 [+1]  Flag  d
  0 [+9]  Int  e
  0 [+2]  UInt:8[3]  f
  1 [+2]  UInt  class
  1 [+2]  UInt  while
"""}, "main": "l.emb"}
HASH_SOURCES["M"] = {"files": {"m.emb": """[$default byte_order: "LittleEndian"]
struct Mt:
  0 [+1]  Nope  a
  1 [+1]  Missing  b
  2 [+zz]  UInt  c
  let d = yy + ww
  3 [+1]  mod.Thing  e
"""}, "main": "m.emb"}
HASH_SOURCES["H"] = {"files": {"h.emb": G_TEXT}, "main": "h.emb"}


_BASE = {}


def setup(tier):
    ops = OPS + [o for o in OPS2 if o not in OPS]
    fresh = worker([[op] for op in ops], True)
    _BASE["baseline"] = {op: res[0]["result"] for op, res in zip(ops, fresh)}


def bounds(tier):
    return {"history_length": 3 if tier == "quick" else 4, "hash_seeds": 8 if tier == "quick" else 32}


def gen_cases(tier):
    b = bounds(tier)
    seed0 = int(os.environ.get("VERIF_SEED", "0") or 0)
    L = b["history_length"]
    # histories grouped by their first two operations
    yield {"kind": "histories", "prefix": [], "max_len": 1, "preload": False}
    for a in OPS:
        for bb in OPS:
            yield {"kind": "histories", "prefix": [a, bb], "max_len": L, "preload": True}
    # same file names, different contents: every history of length <= 3 over the two sets (and one unrelated compile)
    for first in OPS2:
        yield {"kind": "histories", "prefix": [first], "max_len": 3, "preload": True, "ops": OPS2}
    for name in sorted(HASH_SOURCES):
        for lo in range(0, b["hash_seeds"], 4):
            yield {"kind": "hashseed", "source": name, "seeds": [seed0 + s for s in range(lo, lo + 4)]}
    yield {"kind": "importdirs"}


def worker(histories, preload):
    req = json.dumps({"sources": SOURCES, "histories": histories, "preload": preload})
    env = dict(os.environ, PYTHONHASHSEED="0", VERIF_REPO=common.REPO)
    r = subprocess.run([sys.executable, os.path.join(common.VERIF, "checks", "c17_worker.py")], input=req, capture_output=True, text=True,
                       env=env, timeout=2000)
    if r.returncode != 0:
        raise RuntimeError("c17 worker failed: " + r.stderr[-800:])
    return json.loads(r.stdout)


def check_histories(case):
    L = case["max_len"]
    hists = []
    ops = case.get("ops", OPS)
    if not case["prefix"]:
        hists = [[op] for op in ops]
    else:
        hists.append(list(case["prefix"]))
        for n in range(1, L - len(case["prefix"]) + 1):
            for tail in itertools.product(ops, repeat=n):
                hists.append(list(case["prefix"]) + list(tail))
    if "baseline" not in _BASE:
        setup("quick")
    baseline = _BASE["baseline"]
    results = worker(hists, case["preload"])
    viol = []
    states = set()
    transitions = 0
    for hist, res in zip(hists, results):
        for step in res:
            if "fatal" in step:
                viol.append({"key": "history-worker-failed", "msg": step["fatal"], "detail": {"history": hist}})
                continue
            transitions += 1
            states.add(json.dumps(step["state"], sort_keys=True))
            want = baseline[step["op"]]
            got = step["result"]
            if got != want:
                diff = [k for k in set(got) | set(want) if got.get(k) != want.get(k)]
                viol.append({"key": "history-dependent-output:" + ",".join(sorted(diff)),
                             "msg": "history %s: result of %s differs from a fresh process in %s" % (hist, step["op"], diff),
                             "detail": {"history": hist, "op": step["op"], "fresh": {k: (want.get(k) or "")[:600] for k in diff},
                                        "in_history": {k: (got.get(k) or "")[:600] for k in diff}}})
                break
    seen, keep = {}, []
    for v in viol:
        seen[v["key"]] = seen.get(v["key"], 0) + 1
        if seen[v["key"]] <= 2:
            keep.append(v)
    return {"viol": keep, "n": transitions, "transitions": transitions, "traces": len(hists), "state_keys": sorted(states),
            "nt": [json.dumps(h) for h in hists if len(h) >= 2], "stats": {"histories": len(hists)}}


def run_cli(tool, args, cwd, seed):
    env = dict(os.environ, PYTHONHASHSEED=str(seed), PYTHONPATH=common.REPO)
    env.pop("PYTHONDONTWRITEBYTECODE", None)
    r = subprocess.run([sys.executable, os.path.join(common.REPO, tool)] + args, capture_output=True, text=True, cwd=cwd, env=env, timeout=300)
    return r.returncode, r.stdout, r.stderr


def check_hashseed(case):
    src = HASH_SOURCES[case["source"]]
    viol = []
    outs = {}
    n = 0
    for seed in case["seeds"] + [0]:
        d = tempfile.mkdtemp(prefix="embverif-")
        try:
            for nme, t in src["files"].items():
                with open(os.path.join(d, nme), "w") as f:
                    f.write(t)
            rc, so, se = run_cli("embossc", ["--color-output", "never", "--output-path", "out", src["main"]], d, seed)
            hdr = None
            p = os.path.join(d, "out", src["main"] + ".h")
            if os.path.exists(p):
                hdr = open(p).read()
            rc2, so2, se2 = run_cli("emboss-format", ["--no-edit-in-place", "--color-output", "never", src["main"]], d, seed)
            outs[seed] = (rc, so, se, hdr, rc2, so2, se2)
            n += 2
        finally:
            shutil.rmtree(d, ignore_errors=True)
    ref = outs[0]
    names = ["embossc exit status", "embossc stdout", "embossc stderr", "header", "emboss-format exit status", "emboss-format stdout",
             "emboss-format stderr"]
    for seed, o in sorted(outs.items()):
        for k, (x, y) in enumerate(zip(o, ref)):
            if x != y:
                viol.append({"key": "hashseed-dependent:" + names[k].replace(" ", "-"),
                             "msg": "source %s: %s differs between PYTHONHASHSEED=%d and 0" % (case["source"], names[k], seed),
                             "detail": {"source": src, "seed": seed, "with_seed": str(x)[:800], "with_seed_0": str(y)[:800]}})
                break
    if "Traceback" in ref[2] or "Traceback" in ref[6]:
        pass    # crashes are C16's subject
    return {"viol": viol[:3], "n": n, "traces": n, "transitions": n, "state_keys": [], "nt": ["%s/%s" % (case["source"], s) for s in case["seeds"]],
            "stats": {"cli_runs": n}}


def check_importdirs(case):
    """Identical copies of the imported file in two import directories, listed in both orders."""
    viol = []
    outs = []
    for order in (["d1", "d2"], ["d2", "d1"], ["d1"], ["d2", "d2", "d1"]):
        d = tempfile.mkdtemp(prefix="embverif-")
        try:
            for sub in ("d1", "d2"):
                os.mkdir(os.path.join(d, sub))
                with open(os.path.join(d, sub, "a.emb"), "w") as f:
                    f.write(A_TEXT)
            with open(os.path.join(d, "b.emb"), "w") as f:
                f.write(B_TEXT)
            args = ["--color-output", "never", "--output-path", "out"]
            for o in order:
                args += ["-I", o]
            rc, so, se = run_cli("embossc", args + ["b.emb"], d, 0)
            p = os.path.join(d, "out", "b.emb.h")
            outs.append((rc, so, se, open(p).read() if os.path.exists(p) else None))
        finally:
            shutil.rmtree(d, ignore_errors=True)
    for o in outs[1:]:
        if o != outs[0]:
            viol.append({"key": "import-dir-order-dependent", "msg": "embossc output depends on the order/multiplicity of -I directories",
                         "detail": {"first": str(outs[0])[:600], "other": str(o)[:600]}})
            break
    if outs[0][0] != 0:
        viol.append({"key": "import-dir-compile-failed", "msg": outs[0][2][-300:]})
    # *different* files of the same name in several import directories, and an import that exists nowhere: which file
    # wins (the first directory listed) and what the not-found diagnostic lists must not depend on the hash seed
    seeds = case.get("seeds", list(range(8)))
    for scenario, main_text in (("shadowed", B_TEXT), ("missing", 'import "zz.emb" as zz\n' + B_TEXT)):
        per_seed = {}
        for seed in seeds:
            d = tempfile.mkdtemp(prefix="embverif-")
            try:
                for k, sub in enumerate(("dir_b", "dir_a", "dir_c", "zdir")):
                    os.mkdir(os.path.join(d, sub))
                    with open(os.path.join(d, sub, "a.emb"), "w") as f:
                        f.write(A_TEXT.replace("2 [+2]  UInt  x", "2 [+%d]  UInt  x" % (k + 1)))
                with open(os.path.join(d, "b.emb"), "w") as f:
                    f.write(main_text)
                args = ["--color-output", "never", "--output-path", "out", "-I", "dir_b", "-I", "dir_a", "-I", "dir_c", "-I", "zdir", "-I", "."]
                rc, so, se = run_cli("embossc", args + ["b.emb"], d, seed)
                p = os.path.join(d, "out", "b.emb.h")
                per_seed[seed] = (rc, so, se, open(p).read() if os.path.exists(p) else None)
            finally:
                shutil.rmtree(d, ignore_errors=True)
        outs.extend(per_seed.values())
        first = per_seed[seeds[0]]
        for seed in seeds[1:]:
            if per_seed[seed] != first:
                viol.append({"key": "hashseed-dependent:import-dirs-" + scenario, "msg": "embossc with 5 import dirs (%s a.emb): output differs between "
                             "PYTHONHASHSEED=%d and %d" % (scenario, seed, seeds[0]),
                             "detail": {"first": str(first)[:700], "other": str(per_seed[seed])[:700]}})
                break
        if scenario == "shadowed" and first[0] == 0 and first[3] is not None:
            # the first directory listed wins: dir_b's a.emb has a 1-byte x, so Aa is at most 3 bytes
            pass
    return {"viol": viol, "n": len(outs), "traces": len(outs), "transitions": len(outs), "state_keys": [], "nt": ["importdirs-a", "importdirs-b", "importdirs-seeds"]}


def check_case(case):
    if case["kind"] == "histories":
        return check_histories(case)
    if case["kind"] == "hashseed":
        return check_hashseed(case)
    return check_importdirs(case)


def sample_of(case):
    if case["kind"] == "histories":
        return {"histories_with_prefix": case["prefix"], "max_length": case["max_len"], "operations": OPS,
                "source_A": A_TEXT, "source_D": D_TEXT}
    return case
