"""C14 -- physical layout and attribute rules are enforced exactly as documented.
Every boundary row of the documented layout/attribute rules, each exhaustively over its small
catalogue; oracle = rule table transcribed from doc/language-reference.md (both directions:
realisable modules accepted, single-rule violations rejected)."""
import os

from vk import common, grammardoc

PROPERTY = "C14"
LEVEL = "exploration"
RULE = ("catalogues, each exhaustive: scalar widths 0..65,128 in bits and byte sizes 0..9 in struct for UInt/Int/Bcd, explicit type "
        "sizes equal/smaller/larger than the field; Float at byte sizes 1..9 and bit widths 16,32,33,64; Flag widths 1,2,8; enum "
        "maximum_bits {unset,1,2,7,8,9,31,32,33,63,64,0,65} x is_signed {unset,true,false} x field widths x 8 boundary values; bits "
        "total sizes 1,8,63,64,65,72, dynamic bits, byte-oriented member; arrays (fixed/dynamic element, element size vs parent, "
        "omitted dimensions, 1-3 dimensions); byte order: sizes 1..8 x {absent,LE,BE,Null} x $default at module/struct/both/neither; "
        "7 attributes x 7 scopes x {plain,$default} x {right,wrong-type,non-constant} + duplicates + unknown names; all 534 "
        "reserved words and near misses as field/type/enum-value names. Non-trivial = row whose verdict flips against its "
        "neighbour row; distinct by source text.")
ASSUMPTIONS = ["rule table in checks/c14.py transcribed from doc/language-reference.md",
               "not compared (undocumented): array declared length vs field size, negative array lengths, byte_order on "
               "struct-typed fields, $default byte_order on a bits type"]
TIMEOUT = 1800

LE = '[$default byte_order: "LittleEndian"]\n'


def rows_scalar():
    out = []
    for T in ("UInt", "Int", "Bcd"):
        for w in list(range(0, 66)) + [128]:
            cw = min(max(w, 1), 64)
            src = "bits Bb:\n  0 [+%d]  %s  x\n" % (w, T)
            out.append(("scalar-bits %s %d" % (T, w), src, 1 <= w <= 64))
        for n in range(0, 10):
            src = LE + "struct Ss:\n  0 [+%d]  %s  x\n" % (n, T)
            out.append(("scalar-bytes %s %d" % (T, n), src, 1 <= n <= 8))
        for n, w in ((1, 8), (2, 16), (2, 8), (2, 24), (4, 32), (4, 31), (8, 64), (8, 65), (1, 4), (3, 24)):
            src = LE + "struct Ss:\n  0 [+%d]  %s:%d  x\n" % (n, T, w)
            out.append(("explicit-size %s %d:%d" % (T, n, w), src, w == 8 * n))
        for fw, w in ((4, 4), (4, 3), (4, 5), (64, 64), (7, 7)):
            src = "bits Bb:\n  0 [+%d]  %s:%d  x\n" % (fw, T, w)
            out.append(("explicit-size-bits %s %d:%d" % (T, fw, w), src, fw == w))
    # the same boundaries with the field *used* (bounds of a reference are computed before the width is checked)
    for T in ("UInt", "Int", "Bcd"):
        for use in ("  let y = $max(x, 1)\n", "  if x == 0:\n    %s [+1]  %s  z\n", "  let y = x\n  let w = y == 2\n"):
            for w in (0, 1, 2, 63, 64, 65):
                u = use % (70, "Flag") if "%s" in use else use
                out.append(("scalar-bits-used %s %d %r" % (T, w, use[:9]), "bits Bb:\n  0 [+%d]  %s  x\n%s" % (w, T, u), 1 <= w <= 64 and not (w == 65)) if "if x" not in use
                           else ("scalar-bits-used %s %d if" % (T, w), "bits Bb:\n  0 [+%d]  %s  x\n  if x == 0:\n    %d [+1]  Flag  z\n" % (w, T, w), 1 <= w <= 63))
            for n in (0, 1, 8, 9):
                u = use % (n, "UInt") if "%s" in use else use
                out.append(("scalar-bytes-used %s %d %r" % (T, n, use[:9]), LE + "struct Ss:\n  0 [+%d]  %s  x\n%s" % (n, T, u), 1 <= n <= 8))
        for neg in ("-2", "0-1", "- 1"):
            out.append(("scalar-negative-size %s %s" % (T, neg), "bits Bb:\n  0 [+%s]  %s  x\n  let y = x + 1\n" % (neg, T), False))
            out.append(("scalar-negative-size-bytes %s %s" % (T, neg), LE + "struct Ss:\n  0 [+%s]  %s  x\n  let y = x\n" % (neg, T), False))
    for start in ("-1", "0-4", "- 1", "0", "1"):
        out.append(("constant-start %s" % start, LE + "struct Ss:\n  %s [+2]  UInt  x\n" % start, not start.replace(" ", "").startswith(("-", "0-"))))
    # a field sized by a value that has no bounds of its own (its own size is not fixed)
    out.append(("size-from-unbounded", LE + "struct Ss:\n  0 [+1]  UInt  n\n  1 [+n]  UInt  x\n  2 [+x]  UInt  y\n", False))
    out.append(("upper-bound-of-unbounded", LE + "struct Ss:\n  0 [+1]  UInt  n\n  1 [+n]  UInt  x\n  let z = $upper_bound(x) == 3\n", False))
    out.append(("lower-bound-of-unbounded-as-start", LE + "struct Ss:\n  0 [+1]  UInt  n\n  1 [+n]  UInt  x\n  $lower_bound(x) [+1]  UInt  q\n", False))
    for T in ("UInt", "Int"):
        for w in (0, 1, 8, 63, 64, 65):
            for use in ("", "  let q = p\n  let r = $max(q, 3)\n", "  if p == 0:\n    1 [+1]  UInt  z\n"):
                out.append(("parameter-width %s:%d %r" % (T, w, use[:8]), LE + "struct Ss(p: %s:%d):\n  0 [+1]  UInt  x\n%s" % (T, w, use), 1 <= w <= 64))
    for n in range(1, 10):
        out.append(("float-bytes %d" % n, LE + "struct Ss:\n  0 [+%d]  Float  x\n" % n, n in (4, 8)))
    for w in (16, 32, 33, 64):
        out.append(("float-bits %d" % w, "bits Bb:\n  0 [+%d]  Float  x\n" % w, w in (32, 64)))
    for w in (1, 2, 8):
        out.append(("flag-bits %d" % w, "bits Bb:\n  0 [+%d]  Flag  x\n  %d [+%d]  UInt  pad\n" % (w, w, 16 - w), w == 1))
    out.append(("flag-byte", LE + "struct Ss:\n  0 [+1]  Flag  x\n", False))
    return out


def rows_enum(tier):
    out = []
    mbs = [None, 1, 2, 7, 8, 9, 31, 32, 33, 63, 64, 0, 65]
    for mb in mbs:
        for sg in (None, True, False):
            b = mb if mb not in (None, 0, 65) else 64
            vals = [-2 ** (b - 1) - 1, -2 ** (b - 1), -1, 0, 2 ** (b - 1) - 1, 2 ** (b - 1), 2 ** b - 1, 2 ** b]
            fws = [1, 2, 7, 8, 9, 16, 32, 33, 63, 64]
            if tier == "quick":
                fws = sorted(set([8, max(1, min(64, b)), min(64, b + 1), 1]))
            for v in vals:
                for fw in fws:
                    lines = ["enum Ee:"]
                    if mb is not None:
                        lines.append("  [maximum_bits: %d]" % mb)
                    if sg is not None:
                        lines.append("  [is_signed: %s]" % ("true" if sg else "false"))
                    lines += ["  VV = %d" % v, "bits Bb:", "  0 [+%d]  Ee  f" % fw]
                    signed = sg if sg is not None else (v < 0)
                    ok = mb in (None,) or 1 <= mb <= 64
                    if ok:
                        if signed:
                            ok = -2 ** (b - 1) <= v <= 2 ** (b - 1) - 1
                        else:
                            ok = 0 <= v <= 2 ** b - 1
                    if ok and fw > b:
                        ok = False
                    out.append(("enum mb=%s signed=%s v=%d fw=%d" % (mb, sg, v, fw), "\n".join(lines) + "\n", ok))
    return out


def rows_bits():
    out = []
    for n in (1, 8, 63, 64, 65, 72):
        if n <= 64:
            src = "bits Bb:\n  0 [+%d]  UInt  x\n" % n
        else:
            src = "bits Bb:\n  0 [+64]  UInt  x\n  64 [+%d]  UInt  y\n" % (n - 64)
        out.append(("bits-total %d" % n, src, n <= 64))
    # size of a structure = largest end of any field, also when fields overlap or alias
    out.append(("bits-overlap-65", "bits Bb:\n  0 [+40]  UInt  a\n  32 [+33]  UInt  b\n", False))
    out.append(("bits-overlap-64", "bits Bb:\n  0 [+40]  UInt  a\n  32 [+32]  UInt  b\n", True))
    out.append(("bits-overlap-72-inner", "bits Bb:\n  0 [+64]  UInt  a\n  8 [+64]  UInt  b\n", False))
    for outer, ok in ((8, True), (4, False), (6, False), (9, False)):
        out.append(("struct-overlap-nested %d" % outer, LE + "struct In:\n  0 [+4]  UInt  a\n  2 [+6]  UInt:8[6]  b\n  1 [+2]  UInt  c\nstruct Ss:\n  0 [+%d]  In  s\n" % outer, ok))
        out.append(("struct-alias-longer %d" % outer, LE + "struct In:\n  0 [+4]  UInt  a\n  0 [+8]  UInt  whole\nstruct Ss:\n  0 [+%d]  In  s\n" % outer, ok))
        out.append(("struct-typed-size %d" % outer, LE + "struct In:\n  4 [+4]  UInt  hi\n  0 [+4]  UInt  lo\nstruct Ss:\n  0 [+%d]  In  s\n" % outer, ok))
    out.append(("anon-bits-72", LE + "struct Ss:\n  0 [+9]  bits:\n    0 [+64]  UInt  a\n    64 [+8]  UInt  b\n", False))
    out.append(("anon-bits-64", LE + "struct Ss:\n  0 [+8]  bits:\n    0 [+60]  UInt  a\n    60 [+4]  UInt  b\n", True))
    out.append(("anon-bits-dynamic", LE + "struct Ss:\n  0 [+4]  bits:\n    0 [+4]  UInt  n\n    4 [+n]  UInt:1[]  rest\n", False))
    out.append(("inline-bits-72", LE + "struct Ss:\n  0 [+9]  bits  bb:\n    0 [+64]  UInt  a\n    64 [+8]  UInt  b\n", False))
    out.append(("bits-dynamic", "bits Bb:\n  0 [+4]  UInt  n\n  4 [+n]  UInt:1[]  rest\n", False))
    out.append(("bits-conditional-fixed", "bits Bb:\n  0 [+4]  UInt  n\n  if n == 1:\n    4 [+4]  UInt  m\n", None))
    out.append(("bits-with-struct-member", LE + "struct Ss:\n  0 [+1]  UInt  x\nbits Bb:\n  0 [+8]  Ss  s\n", False))
    out.append(("bits-with-bits-member", "bits Inner:\n  0 [+4]  UInt  x\nbits Bb:\n  0 [+4]  Inner  s\n  4 [+4]  UInt  y\n", True))
    out.append(("struct-with-bits-member", LE + "bits Inner:\n  0 [+16]  UInt  x\nstruct Ss:\n  0 [+2]  Inner  s\n", True))
    out.append(("struct-with-bits-member-wrong-size", LE + "bits Inner:\n  0 [+16]  UInt  x\nstruct Ss:\n  0 [+3]  Inner  s\n", False))
    out.append(("struct-with-fixed-struct-right", LE + "struct In:\n  0 [+2]  UInt  x\nstruct Ss:\n  0 [+2]  In  s\n", True))
    out.append(("struct-with-fixed-struct-wrong", LE + "struct In:\n  0 [+2]  UInt  x\nstruct Ss:\n  0 [+4]  In  s\n", False))
    out.append(("struct-with-dynamic-struct", LE + "struct In:\n  0 [+1]  UInt  n\n  1 [+n]  UInt:8[]  d\nstruct Ss:\n  0 [+4]  In  s\n", True))
    return out


def rows_arrays():
    out = []
    dyn = LE + "struct Dyn:\n  0 [+1]  UInt  n\n  1 [+n]  UInt:8[]  d\n"
    fix = LE + "struct Fix:\n  0 [+2]  UInt  x\n"
    out.append(("array-of-fixed-struct", fix + "struct Ss:\n  0 [+4]  Fix[2]  a\n", True))
    out.append(("array-of-dynamic-struct", dyn + "struct Ss:\n  0 [+8]  Dyn[2]  a\n", False))
    out.append(("array-of-dynamic-struct-auto", dyn + "struct Ss:\n  0 [+8]  Dyn[]  a\n", False))
    out.append(("array-uint8", LE + "struct Ss:\n  0 [+4]  UInt:8[4]  a\n", True))
    out.append(("array-uint4-in-struct", LE + "struct Ss:\n  0 [+4]  UInt:4[8]  a\n", False))
    out.append(("array-uint12-in-struct", LE + "struct Ss:\n  0 [+3]  UInt:12[2]  a\n", False))
    out.append(("array-uint4-in-bits", "bits Bb:\n  0 [+16]  UInt:4[4]  a\n", True))
    out.append(("array-uint3-in-bits", "bits Bb:\n  0 [+12]  UInt:3[4]  a\n", True))
    out.append(("array-untyped-size", LE + "struct Ss:\n  0 [+4]  UInt[4]  a\n", False))
    out.append(("array-auto", LE + "struct Ss:\n  0 [+1]  UInt  n\n  1 [+n]  UInt:8[]  a\n", True))
    out.append(("array-dynamic-count", LE + "struct Ss:\n  0 [+1]  UInt  n\n  1 [+n]  UInt:8[n]  a\n", True))
    out.append(("array-2d", LE + "struct Ss:\n  0 [+6]  UInt:8[2][3]  a\n", True))
    out.append(("array-3d", LE + "struct Ss:\n  0 [+24]  UInt:8[2][3][4]  a\n", True))
    out.append(("array-all-omitted-2d", LE + "struct Ss:\n  0 [+6]  UInt:8[][]  a\n", False))
    out.append(("array-omit-pair", None, "exactly-one:" + LE + "struct Ss:\n  0 [+6]  UInt:8[][3]  a\n" + "|||" + LE + "struct Ss:\n  0 [+6]  UInt:8[2][]  a\n"))
    out.append(("array-two-omitted-3d", LE + "struct Ss:\n  0 [+24]  UInt:8[][][4]  a\n", False))
    # element types obey the same width rules as scalar fields
    for T in ("UInt", "Int", "Bcd"):
        for w in (0, 1, 8, 16, 24, 64, 65, 72, 128):
            if w and w % 8 == 0:
                out.append(("array-elem-bytes %s:%d" % (T, w), LE + "struct Ss:\n  0 [+%d]  %s:%d[2]  a\n" % (2 * w // 8, T, w), 1 <= w <= 64))
            if w <= 32:
                out.append(("array-elem-bits %s:%d" % (T, w), "bits Bb:\n  0 [+%d]  %s:%d[2]  a\n" % (2 * w, T, w), 1 <= w <= 64))
    for w in (16, 32, 64, 128):
        out.append(("array-elem Float:%d" % w, LE + "struct Ss:\n  0 [+%d]  Float:%d[2]  a\n" % (2 * w // 8, w), w in (32, 64)))
    out.append(("array-elem Flag:8", LE + "struct Ss:\n  0 [+2]  Flag:8[2]  a\n", False))
    out.append(("array-elem Flag:1-in-bits", "bits Bb:\n  0 [+2]  Flag:1[2]  a\n", True))
    for mb, w in ((8, 8), (8, 16), (16, 16), (16, 32)):
        out.append(("array-elem enum mb=%d w=%d" % (mb, w), LE + "enum Ee:\n  [maximum_bits: %d]\n  AA = 1\nstruct Ss:\n  0 [+%d]  Ee:%d[2]  a\n" % (
            mb, 2 * w // 8, w), w <= mb))
    # elements must have a size: zero-byte structures and empty inner dimensions cannot be array elements
    empty = LE + "struct Empty:\n  let k = 1\n"
    out.append(("array-of-empty-struct", empty + "struct Ss:\n  0 [+0]  Empty[3]  a\n", False))
    out.append(("array-of-empty-struct-auto", empty + "struct Ss:\n  0 [+0]  Empty[]  a\n", False))
    out.append(("empty-struct-plain", empty + "struct Ss:\n  0 [+0]  Empty  a\n", True))
    for inner in (-1, 0, 1):
        out.append(("array-inner-dimension %d" % inner, LE + "struct Ss:\n  0 [+%d]  UInt:8[%d][4]  a\n" % (max(inner, 0) * 4, inner), inner >= 1))
    out.append(("array-of-flags-in-bits", "bits Bb:\n  0 [+8]  Flag[8]  a\n", True))
    out.append(("array-of-enum", LE + "enum Ee:\n  [maximum_bits: 8]\n  AA = 1\nstruct Ss:\n  0 [+4]  Ee:8[4]  a\n", True))
    return out


def rows_byte_order():
    out = []
    for n in range(1, 9):
        for kind in ("UInt", "bits"):
            for attr in (None, "LittleEndian", "BigEndian", "Null"):
                for dm in (None, "LittleEndian"):
                    for ds in (None, "BigEndian", "Null"):
                        lines = []
                        if dm:
                            lines.append('[$default byte_order: "%s"]' % dm)
                        if kind == "bits":
                            lines += ["bits Bb:", "  0 [+%d]  UInt  x" % min(8 * n, 64)]
                        lines.append("struct Ss:")
                        if ds:
                            lines.append('  [$default byte_order: "%s"]' % ds)
                        lines.append("  0 [+%d]  %s  f" % (n, "UInt" if kind == "UInt" else "Bb"))
                        if attr:
                            lines.append('    [byte_order: "%s"]' % attr)
                        eff = attr or ds or dm or "Null"
                        ok = eff in ("LittleEndian", "BigEndian") or n == 1
                        out.append(("byte-order %s n=%d attr=%s struct=%s module=%s" % (kind, n, attr, ds, dm), "\n".join(lines) + "\n", ok))
    # anonymous bits whose members use fewer bits than the field has: the field is still an n-byte value
    for n in range(1, 9):
        for used in sorted({1, 8, min(8 * n, 64)}):
            for attr in (None, "LittleEndian", "Null"):
                for dm in (None, "BigEndian"):
                    lines = []
                    if dm:
                        lines.append('[$default byte_order: "%s"]' % dm)
                    lines += ["struct Ss:", "  0 [+%d]  bits:" % n]
                    if attr:
                        lines.append('    [byte_order: "%s"]' % attr)
                    lines.append("    0 [+%d]  UInt  x" % used)
                    eff = attr or dm or "Null"
                    out.append(("byte-order anon n=%d used=%d attr=%s module=%s" % (n, used, attr, dm), "\n".join(lines) + "\n",
                                eff in ("LittleEndian", "BigEndian") or n == 1))
    # arrays: the elements are what is read, so a one-byte field does not make a multi-byte element order-free
    for n in (1, 2, 4):
        for ew in (8, 16, 32):
            for attr in (None, "LittleEndian", "Null"):
                lines = ["struct Ss:", "  0 [+%d]  UInt:%d[]  f" % (n, ew)]
                if attr:
                    lines.append('    [byte_order: "%s"]' % attr)
                out.append(("byte-order array n=%d elem=%d attr=%s" % (n, ew, attr), "\n".join(lines) + "\n", attr == "LittleEndian" or ew == 8))
    # a `bits` is read as one integer: the field holding it needs a constant size of at most 64 bits
    for kind in ("anon", "named"):
        for size, ok in (("1", True), ("8", True), ("9", False), ("16", False), ("n", False), ("k", True)):
            head = LE + ("bits Bb:\n  0 [+8]  UInt  a\n" if kind == "named" else "")
            body = "struct Ss:\n  0 [+1]  UInt  n\n  let k = 1\n"
            if kind == "anon":
                body += "  1 [+%s]  bits:\n    0 [+4]  UInt  a\n" % size
            else:
                body += "  1 [+%s]  Bb  b\n" % size
            okk = ok and (kind == "anon" or size in ("1", "k"))
            out.append(("bits-field-size %s %s" % (kind, size), head + body, okk if size not in ("8",) or kind == "anon" else False))
    # a $default applies to its own subtree only (fixed_size rows follow in rows_attributes): neither to later siblings nor to imported modules
    out.append(("byte-order default-does-not-leak-to-later-struct",
                'struct Aa:\n  [$default byte_order: "BigEndian"]\n  0 [+2]  UInt  x\nstruct Bb:\n  0 [+2]  UInt  y\n', False))
    out.append(("byte-order default-does-not-leak-to-earlier-struct",
                'struct Bb:\n  0 [+2]  UInt  y\nstruct Aa:\n  [$default byte_order: "BigEndian"]\n  0 [+2]  UInt  x\n', False))
    out.append(("byte-order default-in-nested-does-not-leak",
                'struct Aa:\n  struct In:\n    [$default byte_order: "BigEndian"]\n    0 [+2]  UInt  x\n  0 [+2]  In  i\n  2 [+2]  UInt  y\n', False))
    out.append(("byte-order default-own-subtree", 'struct Aa:\n  [$default byte_order: "BigEndian"]\n  struct In:\n    0 [+2]  UInt  x\n  0 [+2]  In  i\n  2 [+2]  UInt  y\n', True))
    out.append(("byte-order bad value", 'struct Ss:\n  0 [+2]  UInt  f\n    [byte_order: "MiddleEndian"]\n', False))
    out.append(("byte-order array needs order", "struct Ss:\n  0 [+4]  UInt:16[2]  f\n", False))
    out.append(("byte-order array has order", LE + "struct Ss:\n  0 [+4]  UInt:16[2]  f\n", True))
    out.append(("byte-order on virtual", LE + 'struct Ss:\n  0 [+2]  UInt  f\n  let v = f + 1\n    [byte_order: "BigEndian"]\n', False))
    return out


ATTRS = {
    # name -> (right value, wrong-type value, non-constant value or None, set of (scope, is_default) where allowed)
    "byte_order": ('"LittleEndian"', "5", None, {("field", False), ("module", True), ("struct", True)}),
    "requires": ("this < 5", "5", None, {("field", False), ("virtual", False)}),
    "requires_struct": ("x < 5", '"s"', None, {("struct", False), ("bits", False)}),
    "text_output": ('"Skip"', "5", None, {("field", False), ("virtual", False)}),
    "is_signed": ("true", "5", None, {("enum", False)}),
    "maximum_bits": ("32", "true", None, {("enum", False)}),
    "(cpp) namespace": ('"a::b"', "5", None, {("module", False)}),
    "expected_back_ends": ('"cpp"', "5", None, {("module", False)}),
    "(cpp) enum_case": ('"kCamelCase"', "5", None, {("value", False), ("module", True), ("struct", True), ("bits", True), ("enum", True)}),
}
SCOPES = ["module", "struct", "bits", "enum", "value", "field", "virtual"]
UNSPEC_ATTR = {("byte_order", "bits", True), ("requires", "virtual", False), ("text_output", "virtual", False),
               ("byte_order", "bits", False), ("byte_order", "struct", False)}


def attr_module(name, scope, is_default, value, twice=False):
    real = name.replace("_struct", "")
    if real.startswith("(cpp) "):
        a = "[(cpp) %s%s: %s]" % ("$default " if is_default else "", real[6:], value)
    else:
        a = "[%s%s: %s]" % ("$default " if is_default else "", real, value)
    at = {s: "" for s in SCOPES}
    ind = {"module": "", "struct": "  ", "bits": "  ", "enum": "  ", "value": "    ", "field": "    ", "virtual": "    "}[scope]
    at[scope] = (ind + a + "\n") * (2 if twice else 1)
    src = (at["module"] + ('[$default byte_order: "BigEndian"]\n' if not (real == "byte_order" and scope == "module") else "") +
           "enum Ee:\n" + at["enum"] + "  AA = 1\n" + at["value"] + "  BB = 2\n" +
           "bits Bb:\n" + at["bits"] + "  0 [+8]  UInt  x\n" +
           "struct Ss:\n" + at["struct"] + "  0 [+2]  UInt  x\n" + at["field"] + "  2 [+1]  Ee  e\n  let v = x + 1\n" + at["virtual"])
    return src


def rows_attributes():
    out = []
    for name, (right, wrong, _nc, allowed) in ATTRS.items():
        real = name.replace("_struct", "")
        for scope in SCOPES:
            for is_default in (False, True):
                if (real, scope, is_default) in UNSPEC_ATTR:
                    exp = None
                else:
                    exp = (scope, is_default) in allowed
                    if name == "requires" and scope in ("struct", "bits"):
                        continue
                    if name == "requires_struct" and scope not in ("struct", "bits"):
                        continue
                out.append(("attr %s at %s%s" % (real, scope, " $default" if is_default else ""), attr_module(name, scope, is_default, right), exp))
                if exp:
                    out.append(("attr %s at %s%s wrong-type" % (real, scope, " $default" if is_default else ""),
                                attr_module(name, scope, is_default, wrong), False))
                    out.append(("attr %s at %s%s duplicated" % (real, scope, " $default" if is_default else ""),
                                attr_module(name, scope, is_default, right, twice=True), False))
    for scope in SCOPES:
        out.append(("attr unknown at %s" % scope, attr_module("nosuch_attribute", scope, False, "5"), False))
        out.append(("attr unknown back end at %s" % scope, attr_module("(zzz) namespace", scope, False, '"a"').replace("(cpp) ", "(zzz) "), False))
    out.append(("attr maximum_bits non-constant", "enum Ee:\n  [maximum_bits: AA]\n  AA = 1\n", False))
    out.append(("attr text_output bad value", LE + 'struct Ss:\n  0 [+1]  UInt  x\n    [text_output: "Maybe"]\n', False))
    out.append(("attr enum_case bad value", 'enum Ee:\n  AA = 1\n    [(cpp) enum_case: "snake_case"]\n', False))
    out.append(("attr enum_case both", 'enum Ee:\n  AA = 1\n    [(cpp) enum_case: "SHOUTY_CASE, kCamelCase"]\n', True))
    out.append(("attr namespace bad", '[(cpp) namespace: "a b"]\nenum Ee:\n  AA = 1\n', False))
    out.append(("attr namespace empty", '[(cpp) namespace: ""]\nenum Ee:\n  AA = 1\n', False))
    return out


def rows_fixed_size():
    """An explicit [fixed_size_in_bits: N] must equal the real size: every N within 9 bits of it, for structs and bits."""
    out = []
    for nbytes in (1, 3, 8):
        true = 8 * nbytes
        for N in sorted(set(list(range(true - 9, true + 10)) + [0, 2 * true])):
            if N < 0:
                continue
            src = LE + "struct Ss:\n  [fixed_size_in_bits: %d]\n  0 [+%d]  UInt:8[%d]  a\n" % (N, nbytes, nbytes)
            out.append(("fixed-size struct %d bytes marked %d" % (nbytes, N), src, N == true))
    for nbits in (5, 12, 64):
        for N in sorted(set(list(range(nbits - 3, nbits + 4)) + [8 * ((nbits + 7) // 8)])):
            if N < 0:
                continue
            src = "bits Bb:\n  [fixed_size_in_bits: %d]\n  0 [+%d]  UInt  a\n" % (N, nbits)
            out.append(("fixed-size bits %d marked %d" % (nbits, N), src, N == nbits))
    return out


def rows_other_back_end():
    """Attributes qualified for a back end other than cpp are that back end's business: with the back end declared in
    expected_back_ends they are accepted whatever their value, and never act as the core attribute of the same name."""
    out = []
    EB = '[expected_back_ends: "cpp, java"]\n'
    out.append(("other-back-end doc example", EB + LE + '[(cpp) namespace: "foo::bar::baz"]\n[(java) namespace: "com.example.foo.bar.baz"]\nstruct Ss:\n  0 [+1]  UInt  x\n', True))
    out.append(("other-back-end namespace only", EB + LE + '[(java) namespace: "com.example.foo"]\nstruct Ss:\n  0 [+1]  UInt  x\n', True))
    out.append(("other-back-end undeclared", LE + '[(java) namespace: "com.example.foo"]\nstruct Ss:\n  0 [+1]  UInt  x\n', False))
    for name, value in (("byte_order", '"Sideways"'), ("byte_order", "5"), ("requires", "5"), ("requires", "this < 5"), ("text_output", '"Maybe"'), ("whatever", "5")):
        out.append(("other-back-end field attribute %s: %s" % (name, value), EB + LE + "struct Ss:\n  0 [+2]  UInt  x\n    [(java) %s: %s]\n" % (name, value), True))
    for name, value in (("maximum_bits", '"four"'), ("maximum_bits", "4"), ("is_signed", "7"), ("enum_case", '"whatever"')):
        out.append(("other-back-end enum attribute %s: %s" % (name, value), EB + "enum Ee:\n  [(java) %s: %s]\n  AA = 200\n" % (name, value), True))
    # ... and does not satisfy a requirement for the core attribute
    out.append(("other-back-end byte_order does not count", EB + 'struct Ss:\n  0 [+2]  UInt  x\n    [(java) byte_order: "LittleEndian"]\n', False))
    return out


def rows_reserved():
    e = common.emb()
    out = []
    res = os.path.join(common.REPO, "compiler", "front_end", "reserved_words")
    words = []
    for line in open(res):
        w = line.split("#")[0].strip()
        if w and not w.startswith("--") and w not in words:
            words.append(w)
    import re
    for w in words:
        if re.fullmatch(r"[a-z][a-z_0-9]*", w):
            kind, src = "field", LE + "struct Ss:\n  0 [+1]  UInt  %s\n"
        elif re.fullmatch(r"[A-Z][a-zA-Z0-9]*[a-z][a-zA-Z0-9]*", w):
            kind, src = "type", LE + "struct %s:\n  0 [+1]  UInt  x\n"
        elif re.fullmatch(r"[A-Z][A-Z_0-9]*[A-Z_][A-Z_0-9]*", w):
            kind, src = "enum-value", "enum Ee:\n  %s = 1\n"
        else:
            continue
        toks, errs = e.tokenizer.tokenize(w, "")
        if errs or len(toks) != 2 or toks[0].symbol not in ("SnakeWord", "CamelWord", "ShoutyWord"):
            continue          # keywords of Emboss itself (struct, if, ...) are syntax errors anyway; not this rule
        out.append(("reserved %s as %s" % (w, kind), src % w, False))
        if kind == "field":
            out.append(("reserved %s as parameter" % w, LE + "struct Ss(%s: UInt:8):\n  0 [+1]  UInt  x\n" % w, False))
            out.append(("near-miss %sx as parameter" % w, LE + "struct Ss(%sx: UInt:8):\n  0 [+1]  UInt  x\n" % w, (w + "x") not in words))
        if kind == "type":
            out.append(("reserved %s as nested type" % w, LE + "struct Oo:\n  struct %s:\n    0 [+1]  UInt  x\n  0 [+1]  UInt  y\n" % w, False))
            out.append(("reserved %s as nested enum" % w, LE + "struct Oo:\n  enum %s:\n    AA = 1\n  0 [+1]  UInt  y\n" % w, False))
            out.append(("reserved %s as doubly nested type" % w, LE + "struct Oo:\n  struct Mm:\n    bits %s:\n      0 [+8]  UInt  x\n    0 [+1]  UInt  z\n  0 [+1]  UInt  y\n" % w, False))
            snake = re.sub(r"(?<!^)([A-Z])", r"_\1", w).lower()
            if re.fullmatch(r"[a-z][a-z_0-9]*", snake) and snake not in words:
                out.append(("reserved %s as inline enum type via field %s" % (w, snake), LE + "struct Oo:\n  0 [+1]  enum  %s:\n    AA = 1\n" % snake, False))
        near = w + ("x" if kind == "field" else ("Xx" if kind == "type" else "_X"))
        if near not in words:
            out.append(("near-miss %s as %s" % (near, kind), src % near, True))
    return out


def all_rows(tier):
    return rows_scalar() + rows_enum(tier) + rows_bits() + rows_arrays() + rows_byte_order() + rows_attributes() + rows_fixed_size() + rows_other_back_end() + rows_reserved()


_ROWS = {}


def bounds(tier):
    return {"rows": len(_ROWS.get(tier) or all_rows(tier))}


def gen_cases(tier):
    rows = all_rows(tier)
    _ROWS[tier] = rows
    for lo in range(0, len(rows), 150):
        yield {"tier": tier, "lo": lo, "hi": min(len(rows), lo + 150)}


def verdict(src):
    ir, errors, ex = common.front_end({"m.emb": src}, keep_cache=False)
    if ex is not None:
        return "crash", ex
    if errors:
        return "reject", common.first_error_text(errors)
    hdr, herr, hex_ = common.back_end(ir)
    if hex_ is not None:
        return "crash", hex_
    if herr:
        return "reject", common.first_error_text(herr)
    return "accept", None


def check_case(case):
    tier = case["tier"]
    if tier not in _ROWS:
        _ROWS[tier] = all_rows(tier)
    rows = _ROWS[tier]
    viol, nt = [], []
    stats = {"accept": 0, "reject": 0, "unspecified": 0}
    for i in range(case["lo"], case["hi"]):
        label, src, exp = rows[i]
        if isinstance(exp, str) and exp.startswith("exactly-one:"):
            a, b = exp[len("exactly-one:"):].split("|||")
            va, vb = verdict(a)[0], verdict(b)[0]
            if sorted([va, vb]) != ["accept", "reject"]:
                viol.append({"key": "layout-rule:" + label.split(" ")[0], "msg": "%s: verdicts %s / %s, expected exactly one accepted" % (label, va, vb),
                             "detail": {"a": a, "b": b}})
            nt.append(label)
            continue
        v, info = verdict(src)
        if v == "crash":
            viol.append({"key": common.exc_key(info), "msg": "%s: %r" % (label, info), "detail": {"emb": src}})
            continue
        if exp is None:
            stats["unspecified"] += 1
            continue
        stats["accept" if exp else "reject"] += 1
        if exp and v != "accept":
            viol.append({"key": "realisable-rejected:" + label.split(" ")[0], "msg": "%s: %s" % (label, info), "detail": {"emb": src}})
        elif (not exp) and v == "accept":
            viol.append({"key": "rule-violation-accepted:" + label.split(" ")[0], "msg": label, "detail": {"emb": src}})
        nt.append(label)
    seen, keep = {}, []
    for v in viol:
        seen[v["key"]] = seen.get(v["key"], 0) + 1
        if seen[v["key"]] <= 4:
            keep.append(v)
    return {"viol": keep, "n": case["hi"] - case["lo"], "nt": nt, "stats": stats, "allviol": len(viol)}


def sample_of(case):
    tier = case["tier"]
    if tier not in _ROWS:
        _ROWS[tier] = all_rows(tier)
    label, src, exp = _ROWS[tier][case["lo"]]
    return {"row": label, "emb": src, "expected": exp}
