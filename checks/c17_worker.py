"""Runs operation histories for C17 in forks of a pristine process (compiler imported,
parsers loaded, nothing compiled).  stdin: JSON {"sources": {...}, "histories": [[op,...],...],
"preload": bool}; stdout: JSON results."""
import json
import os
import re
import sys

sys.path.insert(0, os.path.dirname(os.path.dirname(os.path.abspath(__file__))))
from vk import common  # noqa: E402


def canon(text):
    """Renumbers reserved anonymous identifiers by first occurrence."""
    if text is None:
        return None
    seen = {}

    def sub(m):
        key = m.group(2)
        if key not in seen:
            seen[key] = str(len(seen) + 1)
        return m.group(1) + seen[key]
    return re.sub(r"(emboss_reserved_anonymous_field_|EmbossReservedAnonymousField)(\d+)", sub, text)


def do_op(e, op, sources):
    kind, name = op.split(":")
    files = sources[name]["files"]
    main = sources[name]["main"]
    ser = e.ir_data_utils.IrDataSerializer
    if kind in ("compile", "split"):
        ir, dbg, errors = e.glue.parse_emboss_file(main, common.reader_for(files))
        if errors:
            return {"errors": e.error.format_errors(errors, files), "ir": None, "header": None}
        j = ser(ir).to_json()
        if kind == "split":
            ir = ser.from_json(e.ir_data.EmbossIr, j)
        header, herr = e.header_generator.generate_header(ir, e.header_generator.Config(include_enum_traits=True))
        return {"errors": e.error.format_errors(herr, files) if herr else "", "ir": canon(j), "header": canon(header)}
    if kind == "format":
        text = files[main]
        tokens, errors = e.tokenizer.tokenize(text, main)
        if errors:
            return {"errors": e.error.format_errors(errors, files), "formatted": None}
        res = e.parser.parse_module(tokens)
        if res.error:
            return {"errors": e.error.format_errors([e.error.make_error_from_parse_error(main, res.error)], files), "formatted": None}
        out = e.format_emb.format_emboss_parse_tree(res.parse_tree, e.format_emb.Config(indent_width=2))
        return {"errors": "", "formatted": out}
    raise ValueError(op)


def state(e):
    from compiler.front_end import constraints, module_ir
    return {"cached": sorted(k[1] for k in e.glue._cached_modules), "counter": module_ir._anonymous_name_counter,
            "reserved_loaded": constraints._RESERVED_WORDS is not None}


def run_history(e, hist, sources):
    r, w = os.pipe()
    pid = os.fork()
    if pid == 0:
        os.close(r)
        out = []
        try:
            for op in hist:
                try:
                    res = do_op(e, op, sources)
                except Exception as ex:  # noqa
                    res = {"exception": "%s: %s" % (type(ex).__name__, ex)}
                out.append({"op": op, "result": res, "state": state(e)})
            data = json.dumps(out).encode()
        except BaseException as ex:  # noqa
            data = json.dumps([{"fatal": repr(ex)}]).encode()
        with os.fdopen(w, "wb") as f:
            f.write(data)
        os._exit(0)
    os.close(w)
    with os.fdopen(r, "rb") as f:
        data = f.read()
    os.waitpid(pid, 0)
    return json.loads(data.decode())


def main():
    req = json.loads(sys.stdin.read())
    e = common.emb()
    if req.get("preload", True):
        e.parser.module_parser()
    import gc
    gc.collect()
    gc.freeze()
    results = []
    for hist in req["histories"]:
        results.append(run_history(e, hist, req["sources"]))
    sys.stdout.write(json.dumps(results))


if __name__ == "__main__":
    main()
