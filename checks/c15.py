"""C15 -- dependency cycles always rejected; dependency order is a stable
topological sort.  Exhaustive: every digraph on <= n nodes (self-loops
included), each realised as virtual fields, field locations, existence
conditions, array sizes, enum values, and module imports."""
import itertools

from vk import common

PROPERTY = "C15"
LEVEL = "exploration"
RULE = ("every directed graph on n<=3 (quick) / n<=4 (thorough) nodes incl. self-loops, node order = "
        "source order, realised 8 ways (virtual-field values, field start offsets, existence conditions, type-parameter arguments, "
        "array sizes, enum values, module imports); oracle = plain DFS SCC + topological-order check. "
        "Non-trivial = graph with at least one edge; distinct by (realisation, n, edge mask).")
ASSUMPTIONS = ["reference SCC/topological code in checks/c15.py",
               "compile watchdog 10 s stands for non-termination"]
TIMEOUT = 900
REALS = ["virt", "loc", "cond", "size", "enum", "import", "mixed", "param", "anonbits", "sizeof"]
ENAMES = ["NA", "NB", "NC", "ND"]


def bounds(tier):
    return {"max_nodes": 3 if tier == "quick" else 4, "realisations": REALS}


def gen_cases(tier):
    nmax = 3 if tier == "quick" else 4
    for n in range(1, nmax + 1):
        total = 1 << (n * n)
        chunk = 32 if n <= 3 else 128
        for real in REALS:
            for lo in range(0, total, chunk):
                yield {"real": real, "n": n, "lo": lo, "hi": min(total, lo + chunk)}


def edges_of(n, mask):
    """adj[i] = sorted list of j such that i depends on j."""
    adj = []
    for i in range(n):
        adj.append([j for j in range(n) if mask >> (i * n + j) & 1])
    return adj


def sccs(adj):
    """Nontrivial SCCs by reachability closure (n is tiny)."""
    n = len(adj)
    reach = [[j in adj[i] for j in range(n)] for i in range(n)]
    for k in range(n):
        for i in range(n):
            for j in range(n):
                if reach[i][k] and reach[k][j]:
                    reach[i][j] = True
    comps = set()
    for i in range(n):
        if reach[i][i]:
            comps.add(frozenset(j for j in range(n) if j == i or (reach[i][j] and reach[j][i])))
    return comps


def source_for(real, n, adj):
    nm = ["n%d" % i for i in range(n)]
    if real == "enum":
        lines = ["enum Ee:"]
        for i in range(n):
            if adj[i]:
                cond = " && ".join("%s == %s" % (ENAMES[j], ENAMES[adj[i][0]]) for j in adj[i])
                lines.append("  %s = (%s) ? %d : 9" % (ENAMES[i], cond, i))
            else:
                lines.append("  %s = %d" % (ENAMES[i], i))
        return {"m.emb": "\n".join(lines) + "\n"}, "m.emb"
    if real == "import":
        files = {}
        for i in range(n):
            lines = ['import "m%d.emb" as i%d' % (j, j) for j in adj[i]]
            lines += ["struct Ss%d:" % i, "  0 [+1]  UInt  x"]
            files["m%d.emb" % i] = "\n".join(lines) + "\n"
        return files, "m0.emb"
    if real == "sizeof":
        # node i = structure Si; edge i -> j: a field of Si is sized by Sj.$size_in_bytes (cycles run through generated fields only)
        lines = ['[$default byte_order: "LittleEndian"]']
        for i in range(n):
            lines.append("struct Ss%d:" % i)
            lines.append("  0 [+1]  UInt  x")
            for k, j in enumerate(adj[i]):
                lines.append("  %d [+Ss%d.$size_in_bytes]  UInt:8[]  f%d" % (1 + 40 * k, j, j))
        return {"m.emb": "\n".join(lines) + "\n"}, "m.emb"
    if real == "anonbits":
        # node i = an anonymous bits block with one member n_i; edge i -> j: the block exists only if n_j == 0
        lines = ['[$default byte_order: "LittleEndian"]', "struct Foo:"]
        for i in range(n):
            ind = "  "
            if adj[i]:
                lines.append("  if %s:" % " && ".join("n%d == 0" % j for j in adj[i]))
                ind = "    "
            lines.append("%s%d [+1]  bits:" % (ind, i))
            lines.append("%s  0 [+8]  UInt  n%d" % (ind, i))
        return {"m.emb": "\n".join(lines) + "\n"}, "m.emb"
    lines = ['[$default byte_order: "LittleEndian"]', "struct Inner:", "  0 [+1]  UInt  x",
             "  1 [+x]  UInt:8[]  rest", "struct Par(p: UInt:16):", "  0 [+1]  UInt  x", "struct Foo:"]
    for i in range(n):
        deps = [nm[j] for j in adj[i]]
        if real in ("size", "mixed", "param"):
            deps = [d + ".x" for d in deps]
        if real == "virt":
            lines.append("  let %s = %s" % (nm[i], " + ".join(deps + ["1"])))
        elif real == "loc":
            lines.append("  %s [+1]  UInt  %s" % (" + ".join(deps) if deps else str(i), nm[i]))
        elif real == "cond":
            if deps:
                lines.append("  if %s:" % " && ".join(d + " == 0" for d in deps))
                lines.append("    %d [+1]  UInt  %s" % (i, nm[i]))
            else:
                lines.append("  %d [+1]  UInt  %s" % (i, nm[i]))
        elif real == "size":
            lines.append("  %d [+%s]  Inner  %s" % (i, " + ".join(deps) if deps else "2", nm[i]))
        elif real == "param":
            lines.append("  %d [+1]  Par(%s)  %s" % (i, " + ".join(deps) if deps else "0", nm[i]))
        elif real == "mixed":
            # deps spread over condition / start / size of one field
            cond = [d for k, d in enumerate(deps) if k % 3 == 0]
            start = [d for k, d in enumerate(deps) if k % 3 == 1]
            size = [d for k, d in enumerate(deps) if k % 3 == 2]
            ind = "  "
            if cond:
                lines.append("  if %s:" % " && ".join(d + " == 0" for d in cond))
                ind = "    "
            lines.append("%s%s [+%s]  Inner  %s" % (ind, " + ".join(start) if start else str(i),
                                                   " + ".join(size) if size else "2", nm[i]))
    return {"m.emb": "\n".join(lines) + "\n"}, "m.emb"


def ir_deps(e, structure):
    """Independent walk: for each field index, the set of sibling field names
    mentioned (as path[0]) in its location, condition or value."""
    names = [f.name.name.text for f in structure.field]
    out = []

    def walk(expr, acc):
        if expr is None:
            return
        which = expr.which_expression
        if which == "field_reference":
            acc.add(expr.field_reference.path[0].source_name[-1].text)
        elif which == "function":
            for a in expr.function.args:
                walk(a, acc)

    for f in structure.field:
        acc = set()
        if f.has_field("location"):
            walk(f.location.start, acc)
            walk(f.location.size, acc)
        if f.has_field("existence_condition"):
            walk(f.existence_condition, acc)
        if f.has_field("read_transform"):
            walk(f.read_transform, acc)
        if f.has_field("type") and f.type.has_field("atomic_type"):
            for a in f.type.atomic_type.runtime_parameter:
                walk(a, acc)
        if f.has_field("type") and f.type.has_field("array_type"):
            t = f.type.array_type
            if t.has_field("element_count"):
                walk(t.element_count, acc)
        out.append(acc)
    return names, out


def check_graph(real, n, mask):
    e = common.emb()
    adj = edges_of(n, mask)
    files, main = source_for(real, n, adj)
    viol = []
    case = {"real": real, "n": n, "mask": mask, "files": files}
    try:
        with common.watchdog(10):
            ir, errors, ex = common.front_end(files, main, keep_cache=False)
    except common.CaseTimeout:
        return [{"key": "nontermination", "msg": "compile exceeded 10 s", "detail": case}]
    if ex is not None:
        return [{"key": common.exc_key(ex), "msg": repr(ex), "detail": case}]
    if real == "import":
        # only modules reachable from m0 are loaded
        seen, todo = {0}, [0]
        while todo:
            i = todo.pop()
            for j in adj[i]:
                if j not in seen:
                    seen.add(j)
                    todo.append(j)
        comps = {c for c in sccs(adj) if c <= seen}
        label = lambda i: "m%d.emb" % i
        head = "Import dependency cycle"
    else:
        comps = sccs(adj)
        label = (lambda i: ENAMES[i]) if real == "enum" else (lambda i: "n%d" % i)
        head = "Dependency cycle"
    want = {frozenset(label(i) for i in c) for c in comps}
    if real == "sizeof":
        # the members of such a cycle are generated fields; only the verdict is compared
        if want and not errors:
            return [{"key": "cycle-accepted", "msg": "cyclic graph accepted", "detail": case}]
        if not want and errors:
            return [{"key": "acyclic-rejected", "msg": common.first_error_text(errors), "detail": case}]
        if errors and not any(m[3].startswith("Dependency cycle") for g in common.error_groups(errors) for m in g):
            return [{"key": "cycle-other-error", "msg": common.first_error_text(errors), "detail": case}]
        return []
    if want:
        if not errors:
            return [{"key": "cycle-accepted", "msg": "cyclic graph accepted",
                     "expected": sorted(map(sorted, want)), "detail": case}]
        got = set()
        for g in common.error_groups(errors):
            msgs = [m[3] for m in g]
            if not msgs[0].startswith(head + "\n"):
                viol.append({"key": "cycle-other-error", "msg": "unexpected error " + repr(msgs[0]),
                             "detail": case})
                continue
            members = [msgs[0].split("\n", 1)[1]] + msgs[1:]
            if real == "anonbits":
                # the cycle runs through the anonymous field that holds the member; its generated name is not the user's
                members = [m for m in members if not m.startswith("emboss_reserved_anonymous_field")]
            if len(set(members)) != len(members):
                viol.append({"key": "cycle-group-duplicates", "msg": repr(members), "detail": case})
            got.add(frozenset(members))
        if got != want and not viol:
            viol.append({"key": "cycle-groups-wrong", "msg": "reported groups differ from SCCs",
                         "expected": sorted(map(sorted, want)), "actual": sorted(map(sorted, got)),
                         "detail": case})
        return viol
    if errors:
        return [{"key": "acyclic-rejected", "msg": common.first_error_text(errors), "detail": case}]
    if real in ("enum", "import"):
        return viol
    st = [t for t in ir.module[0].type if t.name.name.text == "Foo"][0].structure
    if len(st.field) < n:
        return [{"key": "fields-missing", "msg": "structure lost fields", "detail": case}]
    order = list(st.fields_in_dependency_order)
    nf = len(st.field)
    if sorted(order) != list(range(nf)):
        return [{"key": "order-not-permutation", "msg": repr(order), "detail": case}]
    names, deps = ir_deps(e, st)
    pos = {names[idx]: k for k, idx in enumerate(order)}
    # graph-derived expectation for my nodes
    for i in range(n):
        for j in adj[i]:
            if pos["n%d" % j] > pos["n%d" % i]:
                viol.append({"key": "order-not-topological", "msg": "n%d before its dependency n%d" % (i, j),
                             "actual": [names[k] for k in order], "detail": case})
    for idx in range(nf):
        for d in deps[idx]:
            if d in pos and pos[d] > pos[names[idx]]:
                viol.append({"key": "order-not-topological", "msg": "%s before its dependency %s" % (names[idx], d),
                             "actual": [names[k] for k in order], "detail": case})
    src_topo = all(names.index(d) < idx for idx in range(nf) for d in deps[idx] if d in pos)
    if src_topo and order != list(range(nf)):
        viol.append({"key": "order-not-stable", "msg": "source order is topological but was changed",
                     "actual": [names[k] for k in order], "detail": case})
    return viol[:2]


def check_case(case):
    viol = []
    nt = []
    if "mask" in case:  # replay of a single graph
        return {"viol": check_graph(case["real"], case["n"], case["mask"]), "n": 1}
    for mask in range(case["lo"], case["hi"]):
        v = check_graph(case["real"], case["n"], mask)
        for x in v:
            x["subcase"] = {"real": case["real"], "n": case["n"], "mask": mask}
        viol.extend(v)
        if mask:
            nt.append("%s/%d/%d" % (case["real"], case["n"], mask))
    return {"viol": viol, "n": case["hi"] - case["lo"], "nt": nt}


def sample_of(case):
    mask = case["hi"] - 1
    files, main = source_for(case["real"], case["n"], edges_of(case["n"], mask))
    return {"realisation": case["real"], "n": case["n"], "edge_mask": mask, "files": files}
