"""C07 -- every module the compiler accepts yields a header that compiles and instantiates.
(a) EmbSpace programs: a driver that names every member of every view (observations, all
    checked and unchecked reads/writes, copy/equals, text I/O, constants, enum helpers) is
    compiled with -fsyntax-only under each language standard, with and without enum traits;
    static_asserts tie every constant the header exposes to the value in the compiler's IR;
(b) identifier shapes: all pairs of field names / type names from an alphabet of names that sit
    next to generated identifiers;
(c) namespaces and imports."""
import itertools
import json
import re

from vk import common, cppdrv, cppops, embgen, explore

PROPERTY = "C07"
LEVEL = "exploration"
RULE = ("(a) EmbSpace programs (<=1 / <=2 deviations) x -std in {c++11,c++17} (thorough: 11,14,17 x g++,clang++) x enum traits "
        "{on, off for every 3rd}; (b) all ordered pairs of field names from {x,has_x,x_,ok,view,backing_,this_,size,read,data,"
        "int8} and all pairs of type names from {Foo,FooView,FooWriter,GenericFoo,GenericFooView,Ok,View}, plus a "
        "type named like its own field; (c) namespaces {none,a::b,::a::b,a} x import with types/enums/constants used through "
        "the alias. Oracle: g++ -fsyntax-only on a name-every-member driver + static_asserts of all exposed constants against the "
        "IR. Non-trivial = accepted program with a conditional or virtual member; distinct by (case, standard, traits).")
ASSUMPTIONS = ["g++ 12 / clang++ 14 -fsyntax-only instantiates every template the driver names",
               "names rejected by the compiler (reserved words, wrong shape) are only counted"]
TIMEOUT = 2400

FIELD_NAMES = ["x", "has_x", "x_", "ok", "view", "backing_", "this_", "size", "read", "data", "int8"]
TYPE_NAMES = ["Foo", "FooView", "FooWriter", "GenericFoo", "GenericFooView", "Ok", "View"]


def bounds(tier):
    return {"deviations": 1 if tier == "quick" else 2, "standards": ["c++11", "c++17"] if tier == "quick" else ["c++11", "c++14", "c++17"]}


def gen_cases(tier):
    bound = 1 if tier == "quick" else 2
    stds = bounds(tier)["standards"]
    k = 0
    for forced, trace, prog in explore.enumerate_vectors(embgen.program, bound):
        vec = explore.vector_of(forced, trace)
        k += 1
        use = stds if len(forced) <= 1 else ["c++11"]
        for si, std in enumerate(use):
            if tier == "quick" and si > 0 and k % 3 != 1:
                continue
            yield {"kind": "prog", "vector": vec, "std": std, "traits": True, "cxx": "g++"}
        if k % 3 == 0:
            yield {"kind": "prog", "vector": vec, "std": "c++14", "traits": False, "cxx": "g++"}
        if tier != "quick" and len(forced) <= 1:
            yield {"kind": "prog", "vector": vec, "std": "c++14", "traits": True, "cxx": "clang++"}
    for a in FIELD_NAMES:
        for b in FIELD_NAMES:
            if a != b:
                yield {"kind": "fields", "a": a, "others": [b]}
    for a in TYPE_NAMES:
        for b in TYPE_NAMES + ["<nested>", "<field>"]:
            if a != b:
                yield {"kind": "types", "a": a, "others": [b]}
    from checks import c19
    evecs = []
    for forced, trace, e in explore.enumerate_vectors(c19.gen_enum, 1 if tier == "quick" else 2):
        if len(set(e["names"])) == len(e["names"]):
            evecs.append(explore.vector_of(forced, trace))
    for lo in range(0, len(evecs), 12):
        for std in stds[:1] if tier == "quick" else stds:
            yield {"kind": "enums", "vectors": evecs[lo:lo + 12], "std": std}
    for ns in (None, "a::b", "::a::b", "a", "a::b::c_d"):
        for std in stds[:1] if tier == "quick" else stds:
            yield {"kind": "import", "ns": ns, "std": std}
    yield {"kind": "digit-names"}
    # every pair of (importer namespace, imported namespace) over two component names, up to two components each,
    # plus a namespace whose first component is also a type name
    NS = [None, "a", "b", "a::b", "b::a", "a::a", "Main::v1"]
    for ns in NS:
        yield {"kind": "ns-pairs", "ns": ns, "others": NS}
    # parameterised fields: parameter type x argument form x size form x start form
    for ptype in ("Kind", "UInt:8"):
        yield {"kind": "param-dyn", "ptypes": [ptype]}
    # virtual aliases of every scalar type, with and without [requires] (which turns the alias into a transform)
    yield {"kind": "virt-alias-req"}


UNCHECKED = r'''
namespace vk {
// names the unchecked / aborting members so that they are instantiated; never executed
template <class X> static auto touch_scalar(X x, int) -> decltype(x.UncheckedRead(), void()) { (void)x.UncheckedRead(); }
template <class X> static void touch_scalar(X, long) {}
template <class X> static auto touch_write(X x, int) -> decltype(x.Write(x.Read()), void()) { x.Write(x.Read()); x.UncheckedWrite(x.UncheckedRead()); }
template <class X> static void touch_write(X, long) {}
}
'''


def gen_touch(module, traits):
    out = []
    mods = [(None, module)] + [(a, m) for a, m in module.imports]
    for alias, m in mods:
        for s in m.structs:
            out.append("template <class V> static void touch_%s%s(V v);" % ((alias + "_") if alias else "", s.name))
    for alias, m in mods:
        for s in m.structs:
            fn = "touch_%s%s" % ((alias + "_") if alias else "", s.name)
            unit = "Bytes" if s.kind == "struct" else "Bits"
            body = ["template <class V> static void %s(V v) {" % fn,
                    "  (void)v.Ok(); (void)v.IsComplete(); (void)v.SizeIsKnown(); (void)v.SizeIn%s(); (void)v.BackingStorage();" % unit,
                    "  (void)v.IntrinsicSizeIn%s().Ok(); (void)v.MaxSizeIn%s().Read(); (void)v.MinSizeIn%s().Read();" % (unit, unit, unit),
                    ]
            if s.kind == "struct":
                # CopyFrom/Equals are documented for struct views only (doc/cpp-reference.md, "bits Views")
                body.append("  { V w = v; (void)v.Equals(w); (void)v.UncheckedEquals(w); w.CopyFrom(v); w.UncheckedCopyFrom(v); (void)w.TryToCopyFrom(v); }")
            if traits:
                body.append("  { std::string t = ::emboss::WriteToString(v); (void)::emboss::UpdateFromText(v, t); (void)::emboss::WriteToString(v, ::emboss::MultilineText()); }")
            for f in s.all_named_fields():
                n = f.name
                t = f.type
                body.append("  (void)v.has_%s();" % n)
                if f.virtual or t[0] in ("UInt", "Int", "Bcd", "Flag", "Float", "enum"):
                    body.append("  { auto x = v.%s(); (void)x.Ok(); (void)x.Read(); vk::touch_scalar(x, 0); vk::touch_write(x, 0); vk::tryw(x); }" % n)
                elif t[0] == "struct":
                    body.append("  touch_%s(v.%s());" % (cppdrv._obs_name(module, m, alias, t[1])[4:], n))
                elif t[0] == "array":
                    in_bits = s.kind == "bits" or not any(f is g for g in s.fields)
                    body.append("  { auto a = v.%s(); (void)a.Ok(); (void)a.IsComplete(); (void)a.ElementCount(); (void)a.SizeIn%s(); (void)a.begin(); (void)a.end();" % (
                        n, "Bits" if in_bits else "Bytes"))
                    if t[1][0] == "struct":
                        body.append("    touch_%s(a[0]); }" % cppdrv._obs_name(module, m, alias, t[1][1])[4:])
                    else:
                        body.append("    auto e = a[0]; (void)e.Read(); vk::touch_scalar(e, 0); vk::touch_write(e, 0); }")
            body.append("}")
            out.extend(body)
    return "\n".join(out)


def ir_constants(ir, ns):
    """static_asserts for every constant the front end computed (size constants, constant virtuals, enumerators)."""
    e = common.emb()
    out = []
    mod = ir.module[0]

    def walk(types, prefix):
        for t in types:
            name = t.name.name.text
            if name.lower().startswith("embossreserved") or name.startswith("emboss_reserved"):
                continue       # anonymous bits: not nameable by users
            if t.has_field("structure"):
                for f in t.structure.field:
                    if not f.has_field("read_transform"):
                        continue
                    ty = f.read_transform.type
                    fname = f.name.name.text
                    cpp = {"$size_in_bytes": "IntrinsicSizeInBytes", "$max_size_in_bytes": "MaxSizeInBytes",
                           "$min_size_in_bytes": "MinSizeInBytes", "$size_in_bits": "IntrinsicSizeInBits",
                           "$max_size_in_bits": "MaxSizeInBits", "$min_size_in_bits": "MinSizeInBits"}.get(fname, fname)
                    if fname.startswith("emboss_reserved"):
                        continue
                    if e.ir_util.constant_value(f.existence_condition) is not True:
                        continue       # only a field that certainly exists gets a static constant accessor
                    if ty.which_type == "integer" and ty.integer.modulus == "infinity":
                        v = int(ty.integer.modular_value)
                        lit = "%dULL" % v if v >= 2 ** 63 else ("(-9223372036854775807LL - 1)" if v == -2 ** 63 else "%dLL" % v)
                        cmp_t = "unsigned long long" if v >= 2 ** 63 else "long long"
                        out.append("static_assert(static_cast<%s>(%s%s::%s()) == %s, \"%s::%s\");" % (cmp_t, prefix, name, cpp, lit, name, cpp))
                    elif ty.which_type == "boolean" and ty.boolean.has_field("value"):
                        out.append("static_assert(%s%s::%s() == %s, \"%s::%s\");" % (prefix, name, cpp, "true" if ty.boolean.value else "false", name, cpp))
            has_case = any(a.name.text == "enum_case" for a in list(t.attribute) + list(mod.attribute)) or any(
                a.name.text == "enum_case" for v in (t.enumeration.value if t.has_field("enumeration") else []) for a in v.attribute)
            if t.has_field("enumeration") and not has_case:       # spellings under enum_case are C19's subject
                for v in t.enumeration.value:
                    val = int(v.value.type.integer.modular_value) if v.value.type.which_type == "integer" else None
                    if val is None:
                        continue
                    lit = "%dULL" % val if val >= 2 ** 63 else ("(-9223372036854775807LL - 1)" if val == -2 ** 63 else "%dLL" % val)
                    out.append("static_assert(static_cast<std::underlying_type<%s%s>::type>(%s%s::%s) == static_cast<std::underlying_type<%s%s>::type>(%s), \"%s\");" % (
                        prefix, name, prefix, name, v.name.name.text, prefix, name, lit, v.name.name.text))
            if t.subtype:
                walk(t.subtype, prefix + name + "::")
    walk(mod.type, ns + "::")
    return out


def full_driver(module, ir, traits):
    ns = cppdrv.cpp_ns(module)
    st = module.structs[-1]
    parts = [cppdrv.PRELUDE, "#include <vector>\n#include <utility>", cppops.OPS_PRELUDE, UNCHECKED, gen_touch(module, traits),
             "\n".join(ir_constants(ir, ns))]
    args = "".join("%s, " % cppdrv._cpp_param(module, pt, 0 if pt[0] != "enum" else 0) for (pn, pt) in st.params)
    main = ["int main(int argc, char **argv) {", "  (void)argv; unsigned char buf[64] = {0};",
            "  if (argc > 1000) {",
            "    auto v = %s::Make%sView(%sbuf, sizeof buf); touch_%s(v);" % (ns, st.name, args, st.name),
            "    auto c = %s::Make%sView(%sstatic_cast<const unsigned char *>(buf), sizeof buf); (void)c.Ok();" % (ns, st.name, args),
            "    auto a = %s::MakeAligned%sView<unsigned char, 4>(%sbuf, sizeof buf); (void)a.Ok();" % (ns, st.name, args),
            "    std::vector<unsigned char> vec(64); auto vv = %s::Make%sView(%s&vec); (void)vv.Ok();" % (ns, st.name, args),
            "    %s::%sWriter wr(%sbuf, sizeof buf); (void)wr.Ok(); %s::%sView rd(%sstatic_cast<const unsigned char *>(buf), sizeof buf); (void)rd.Ok();" % (
                ns, st.name, args, ns, st.name, args),
            "  }", "  return 0;", "}"]
    return "\n".join(parts + ["\n".join(main)])


def compile_only(files, main, driver_fn, std, traits, cxx, label, detail):
    e = common.emb()
    ir, errors, ex = common.front_end(files, main, keep_cache=False)
    if ex is not None:
        return [{"key": common.exc_key(ex), "msg": "%s: %r" % (label, ex), "detail": detail}], "crash"
    if errors:
        return [], "rejected"
    headers, err, ex2 = cppdrv.compile_headers(files, main, traits=traits)
    if ex2 is not None:
        return [{"key": common.exc_key(ex2), "msg": "%s: back end %r" % (label, ex2), "detail": detail}], "crash"
    if err:
        return [], "rejected-by-back-end"
    drv = driver_fn(ir)
    with cppdrv.Scratch() as sc:
        res = cppdrv.build_and_run(sc, headers, main + ".h", drv, cxx=cxx, std=std, syntax_only=True)
    if res["compile_rc"] != 0:
        errs = [l for l in res["compile_err"].split("\n") if " error: " in l or "error:" in l]
        first = errs[0] if errs else res["compile_err"][-300:]
        key = "header-does-not-compile"
        if "static assertion failed" in first and "Choice" in res["compile_err"]:
            key = "choice-constant-condition-static-assert"
        elif "static assertion failed" in first:
            key = "constant-differs-from-ir"
        return [{"key": key, "msg": "%s: %s" % (label, first[:400]), "detail": dict(detail, errors=errs[:5])}], "compile-error"
    return [], "ok"


def check_case(case):
    k = case["kind"]
    if k == "prog":
        prog = explore.replay(embgen.program, case["vector"])
        files = prog.files()
        label = "%s/%s/traits=%s/%s" % (json.dumps(case["vector"]), case["std"], case["traits"], case["cxx"])
        viol, status = compile_only(files, "m.emb", lambda ir: full_driver(prog.module, ir, case["traits"]), case["std"], case["traits"],
                                    case["cxx"], label, {"emb": files})
        dynamic = any(x != 0 for _t, _i, x in case["vector"])
        return {"viol": viol, "n": 1, "nt": [label] if (status == "ok" and dynamic) else [], "stats": {"status_" + status: 1}}
    if k == "fields":
        viol, nt = [], []
        stats = {}
        for b in case["others"]:
            if b == case["a"]:
                continue
            src = '[$default byte_order: "LittleEndian"]\nstruct Foo:\n  0 [+1]  UInt  %s\n  1 [+2]  UInt  %s\n  if %s == 1:\n    3 [+1]  UInt  zz\n' % (
                case["a"], b, case["a"])
            drv = ("#include \"prog.emb.h\"\nint main() { unsigned char b[8] = {0}; auto v = ::emboss_generated_code::MakeFooView(b, sizeof b);"
                   " (void)v.Ok(); (void)v.%s().Read(); (void)v.%s().Read(); (void)v.has_%s(); (void)v.has_%s(); (void)v.has_zz();"
                   " auto w = v; (void)v.Equals(w); (void)::emboss::WriteToString(v); return 0; }\n" % (case["a"], b, case["a"], b))
            label = "fields %s,%s" % (case["a"], b)
            v, status = compile_only({"m.emb": src}, "m.emb", lambda ir: drv, "c++14", True, "g++", label, {"emb": src})
            for x in v:
                if x["key"] == "header-does-not-compile":
                    if "has_" + case["a"] == b or "has_" + b == case["a"]:
                        x["key"] = "collide:has_x"
                    elif "backing_" in (case["a"], b):
                        x["key"] = "collide:backing_"
            viol.extend(v)
            stats["status_" + status] = stats.get("status_" + status, 0) + 1
            if status == "ok":
                nt.append(label)
        return {"viol": viol, "n": len(case["others"]) - 1, "nt": nt, "stats": stats}
    if k == "types":
        viol, nt = [], []
        stats = {}
        for b in case["others"]:
            if b == case["a"]:
                continue
            a = case["a"]
            if b == "<nested>":
                src = '[$default byte_order: "LittleEndian"]\nstruct %s:\n  struct %s:\n    0 [+1]  UInt  x\n  0 [+1]  %s  y\n' % (a, a, a)
                use = "::emboss_generated_code::Make%sView(b, sizeof b)" % a
                second = None
            elif b == "<field>":
                src = '[$default byte_order: "LittleEndian"]\nstruct %s:\n  0 [+1]  UInt  x\nstruct Holder:\n  0 [+1]  %s  %s\n' % (
                    a, a, re.sub(r"(?<!^)(?=[A-Z])", "_", a).lower())
                use = "::emboss_generated_code::MakeHolderView(b, sizeof b)"
                second = None
            else:
                src = '[$default byte_order: "LittleEndian"]\nstruct %s:\n  0 [+1]  UInt  x\nstruct %s:\n  0 [+1]  %s  y\n  1 [+1]  UInt  z\n' % (a, b, a)
                use = "::emboss_generated_code::Make%sView(b, sizeof b)" % b
                second = "::emboss_generated_code::Make%sView(b, sizeof b)" % a
            drv = ("#include \"prog.emb.h\"\nint main() { unsigned char b[8] = {0}; auto v = %s; (void)v.Ok(); auto w = v; (void)v.Equals(w);"
                   " (void)::emboss::WriteToString(v); %s return 0; }\n" % (use, ("auto u = %s; (void)u.Ok(); (void)u.x().Read();" % second) if second else ""))
            label = "types %s,%s" % (a, b)
            v, status = compile_only({"m.emb": src}, "m.emb", lambda ir: drv, "c++14", True, "g++", label, {"emb": src})
            for x in v:
                if x["key"] == "header-does-not-compile":
                    names = {a, b}
                    if any((n + "View") in names or (n + "Writer") in names or ("Generic" + n) in names or ("Generic" + n + "View") in names
                           for n in names):
                        x["key"] = "collide:FooView"
            viol.extend(v)
            stats["status_" + status] = stats.get("status_" + status, 0) + 1
            if status == "ok":
                nt.append(label)
        return {"viol": viol, "n": len(case["others"]) + 1, "nt": nt, "stats": stats}
    if k == "enums":
        from checks import c19
        viol, nt = [], []
        stats = {}
        groups = {}
        for vec in case["vectors"]:
            e = explore.replay(c19.gen_enum, vec)
            src1 = c19.module_text([e], e["case"] if e["place"] == "module" else None)
            ir, errors, ex = common.front_end({"m.emb": src1}, keep_cache=False)
            if ex is not None or errors:
                continue
            kc = [c19.k_camel(n) for n in e["names"]]
            if e["case"] and "kCamelCase" in e["case"] and len(set(kc)) < len(kc):
                continue          # known finding collide:kCamelCase is C19's
            groups.setdefault(e["case"] if e["place"] == "module" else None, []).append((e, vec))
        for mc, items in groups.items():
            enums = [x[0] for x in items]
            src = c19.module_text(enums, mc)
            label = "enums %s %s" % (json.dumps([x[1] for x in items])[:200], case["std"])
            v, status = compile_only({"m.emb": src}, "m.emb", lambda ir: c19.driver_for(enums), case["std"], True, "g++", label, {"emb": src})
            viol.extend(v)
            stats["status_" + status] = stats.get("status_" + status, 0) + 1
            if status == "ok":
                nt.append(label)
        return {"viol": viol, "n": len(case["vectors"]), "nt": nt, "stats": stats}
    if k == "digit-names":
        viol, nt = [], []
        for a, b in (("link_v1.emb", "link_v2.emb"), ("p1/x.emb", "p2/x.emb"), ("m_1_0.emb", "m_10.emb")):
            imp = '[$default byte_order: "LittleEndian"]\n[(cpp) namespace: "v1"]\nstruct Old:\n  0 [+1]  UInt  a\n'
            main = ('import "%s" as prev\n[$default byte_order: "LittleEndian"]\n[(cpp) namespace: "v2"]\n'
                    "struct New:\n  0 [+1]  prev.Old  old\n  1 [+1]  UInt  b\n") % a
            drv = ("#include \"prog.emb.h\"\nint main() { unsigned char x[4] = {0}; auto v = ::v2::MakeNewView(x, sizeof x); (void)v.Ok();"
                   " (void)v.old().a().Read(); return 0; }\n")
            label = "digit-names %s imports %s" % (b, a)
            v, status = compile_only({b: main, a: imp}, b, lambda ir: drv, "c++14", True, "g++", label, {"main": main, "imp": imp})
            viol.extend(v)
            if status == "ok":
                nt.append(label)
        return {"viol": viol, "n": 3, "nt": nt}
    if k == "ns-pairs":
        viol, nt = [], []
        ns = case["ns"]
        for ins in case["others"]:
            imp = ('[$default byte_order: "LittleEndian"]\n' + ('[(cpp) namespace: "%s"]\n' % ins if ins else "") +
                   "enum Kind:\n  KA = 0\n  KB = 1\nstruct Inner:\n  0 [+1]  UInt  a\n  let k = 5\nstruct Par(pp: UInt:8, pk: Kind):\n  0 [+1]  UInt  y\n")
            main = ('import "imp.emb" as im\n[$default byte_order: "LittleEndian"]\n' + ('[(cpp) namespace: "%s"]\n' % ns if ns else "") +
                    "struct Main:\n  0 [+1]  im.Kind  kind\n  1 [+1]  im.Inner  inner\n  2 [+1]  enum  mode:\n    MA = 1\n"
                    "  if kind == im.Kind.KB:\n    3 [+im.Inner.k]  im.Inner[5]  arr\n"
                    "  8 [+1]  im.Par(inner.a, kind)  par\n  let c = im.Inner.k + 1\n  let m = mode == Mode.MA\n")
            cns = "::emboss_generated_code" if not ns else "::" + ns.lstrip(":")
            drv = ("#include \"prog.emb.h\"\n#include <string>\nint main() { unsigned char b[16] = {0}; auto v = %s::MakeMainView(b, sizeof b); (void)v.Ok();"
                   " (void)v.kind().Read(); (void)v.inner().a().Read(); (void)v.arr()[0].a().Read(); (void)v.par().y().Read(); (void)v.c().Read(); (void)v.m().Read();"
                   " (void)v.mode().Read(); auto w = v; (void)v.Equals(w); std::string t = ::emboss::WriteToString(v); (void)::emboss::UpdateFromText(v, t);"
                   " static_assert(%s::Main::c() == 6, \"c\"); return 0; }\n" % (cns, cns))
            label = "ns-pairs importer=%s imported=%s" % (ns, ins)
            if ns == ins and ns is not None:
                continue          # both modules in one namespace define different things: fine, but Kind/Inner would need distinct names
            v, status = compile_only({"m.emb": main, "imp.emb": imp}, "m.emb", lambda ir: drv, "c++14", True, "g++", label, {"emb": main, "imp": imp})
            viol.extend(v)
            if status == "ok":
                nt.append(label)
        return {"viol": viol, "n": len(case["others"]), "nt": nt}
    if k == "virt-alias-req":
        viol, nt = [], []
        n = 0
        for ftype, req in (("UInt", "this < 100"), ("Int", "this != -1"), ("Kind", "this != Kind.KB"), ("Flag", "this"), ("Bcd", "this < 50")):
            for with_req in (False, True):
                for second in (False, True):
                    n += 1
                    fld = "  1 [+1]  bits:\n    0 [+1]  Flag  raw\n    1 [+7]  UInt  rest\n" if ftype == "Flag" else "  1 [+1]  %s  raw\n" % ftype
                    main = ('[$default byte_order: "LittleEndian"]\nenum Kind:\n  KA = 0\n  KB = 1\nstruct Main:\n  0 [+1]  UInt  pad\n' + fld +
                            "  let checked = raw\n" + ("    [requires: %s]\n" % req if with_req else "") + ("  let again = checked\n" if second else ""))
                    cns = "::emboss_generated_code"
                    drv = ("#include \"prog.emb.h\"\n#include <string>\nint main() { unsigned char b[4] = {0, 0, 0, 0}; auto v = %s::MakeMainView(b, sizeof b); (void)v.Ok();"
                           " (void)v.checked().Ok(); if (v.checked().Ok()) (void)v.checked().Read(); std::string t = ::emboss::WriteToString(v);"
                           " (void)::emboss::UpdateFromText(v, t); (void)::emboss::WriteToString(v, ::emboss::MultilineText()); auto w = v; (void)v.Equals(w); return 0; }\n" % cns)
                    label = "virt-alias-req %s requires=%s second=%s" % (ftype, with_req, second)
                    v, status = compile_only({"m.emb": main}, "m.emb", lambda ir: drv, "c++14", True, "g++", label, {"emb": main})
                    viol.extend(v)
                    if status == "ok":
                        nt.append(label)
        return {"viol": viol, "n": n, "nt": nt}
    if k == "param-dyn":
        viol, nt = [], []
        n = 0
        for ptype in case.get("ptypes", ("Kind", "UInt:8")):
            for arg in ("field", "literal", "outer-param", "expr"):
                for size in ("2", "length", "length+0"):
                    for start in ("2", "skip", "$next"):
                        n += 1
                        lit = "Kind.KB" if ptype == "Kind" else "1"
                        a = {"field": "kind" if ptype == "Kind" else "length", "literal": lit, "outer-param": "op",
                             "expr": ("flag ? Kind.KA : Kind.KB") if ptype == "Kind" else "length + 1"}[arg]
                        main = ('[$default byte_order: "LittleEndian"]\nenum Kind:\n  KA = 0\n  KB = 1\n'
                                "struct Body(k: %s):\n  0 [+1]  UInt  y\n  if k == %s:\n    1 [+1]  UInt  z\n  let kk = k\n"
                                "struct Main(op: %s):\n  0 [+1]  bits:\n    0 [+1]  Kind  kind\n    1 [+2]  UInt  skip\n    3 [+1]  Flag  flag\n    4 [+4]  UInt  length\n"
                                "  1 [+1]  UInt  pad\n  %s [+%s]  Body(%s)  body\n  let tail_y = body.y\n") % (ptype, lit, ptype, start, size, a)
                        cns = "::emboss_generated_code"
                        oparg = "%s::Kind::KB" % cns if ptype == "Kind" else "1"
                        drv = ("#include \"prog.emb.h\"\n#include <string>\nint main() { unsigned char b[24] = {0x20, 0, 0, 0}; auto v = %s::MakeMainView(%s, b, sizeof b); (void)v.Ok();"
                               " (void)v.body().y().Read(); (void)v.body().has_z(); (void)v.tail_y().Read(); (void)v.body().kk().Read(); (void)v.SizeInBytes();"
                               " auto w = v; (void)v.Equals(w); std::string t = ::emboss::WriteToString(v); (void)::emboss::UpdateFromText(v, t); return 0; }\n" % (cns, oparg))
                        label = "param-dyn %s arg=%s size=%s start=%s" % (ptype, arg, size, start)
                        v, status = compile_only({"m.emb": main}, "m.emb", lambda ir: drv, "c++11", True, "g++", label, {"emb": main})
                        viol.extend(v)
                        if status == "ok":
                            nt.append(label)
        return {"viol": viol, "n": n, "nt": nt}
    if k == "import":
        ns = case["ns"]
        imp = ('[$default byte_order: "LittleEndian"]\n' + ('[(cpp) namespace: "x::y"]\n' if ns else "") +
               "enum Kind:\n  KA = 0\n  KB = 1\nstruct Inner:\n  0 [+1]  UInt  a\n  let k = 5\nstruct Par(pp: UInt:8):\n  0 [+1]  UInt  y\n")
        main = ('import "imp.emb" as im\n[$default byte_order: "LittleEndian"]\n' + ('[(cpp) namespace: "%s"]\n' % ns if ns else "") +
                "struct Main:\n  0 [+1]  im.Kind  kind\n  1 [+1]  im.Inner  inner\n  if kind == im.Kind.KB:\n    2 [+im.Inner.k]  im.Inner[5]  arr\n"
                "  7 [+1]  im.Par(inner.a)  par\n  let c = im.Inner.k + 1\n")
        cns = "::emboss_generated_code" if not ns else "::" + ns.lstrip(":")
        drv = ("#include \"prog.emb.h\"\n#include <string>\nint main() { unsigned char b[16] = {0}; auto v = %s::MakeMainView(b, sizeof b); (void)v.Ok();"
               " (void)v.kind().Read(); (void)v.inner().a().Read(); (void)v.arr()[0].a().Read(); (void)v.par().y().Read(); (void)v.c().Read();"
               " auto w = v; (void)v.Equals(w); std::string t = ::emboss::WriteToString(v); (void)::emboss::UpdateFromText(v, t);"
               " static_assert(%s::Main::c() == 6, \"c\"); return 0; }\n" % (cns, cns))
        label = "import ns=%s %s" % (ns, case["std"])
        v, status = compile_only({"m.emb": main, "imp.emb": imp}, "m.emb", lambda ir: drv, case["std"], True, "g++", label,
                                 {"emb": main, "imp": imp})
        return {"viol": v, "n": 1, "nt": [label] if status == "ok" else [], "stats": {"status_" + status: 1}}
    raise ValueError(k)


def sample_of(case):
    if case["kind"] == "prog":
        prog = explore.replay(embgen.program, case["vector"])
        return {"choice_vector": case["vector"], "std": case["std"], "enum_traits": case["traits"], "emb": prog.files()["m.emb"]}
    return case
