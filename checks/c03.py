"""C03 -- field writes are range-checked, read back exactly, and touch only their own bits.
Explicit-state flavour: state = buffer contents, transition = CouldWriteValue/TryToWrite of a
candidate value on one field.  Same layouts as C02; every write is compared with the
put_bits/representability model of cpp/ref_bits.h.  Virtual-field writes: see c03 virtual cases."""
from checks import c02
from checks.c02 import bounds, TIMEOUT  # noqa

PROPERTY = "C03"
LEVEL = "model_checking"
RULE = ("same layouts as C02; for every field: initial contents {00.., FF.., 5A.., every single bit; all 256 for 1-byte "
        "containers} x candidate values (all values min-2..max+2 for w<=8, else a boundary alphabet incl. 2^w, -2^w, "
        "2^63, 2^64-1) passed as int64_t and uint64_t (UInt/Int) or ValueType (Bcd/enum/Flag/Float) x complete and "
        "truncated backing store; oracle: CouldWriteValue <=> representable, TryToWrite <=> representable and present, "
        "afterwards buffer == put_bits(before) bit for bit and Read()==v, after failure buffer unchanged; plus all "
        "invertible virtual-field shapes over all values of an 8-bit target. Non-trivial = field written at least once.")
ASSUMPTIONS = ["cpp/ref_bits.h put_bits/representability model", "x86-64 little-endian host; g++ -O1",
               "values outside ValueType are not passed to Bcd/enum/Flag views (documented signature)"]


def gen_cases(tier):
    for c in c02.gen_cases(tier):
        yield c
    from checks import c03v
    for c in c03v.gen_cases(tier):
        yield c


def check_case(case):
    if case.get("layout") == "virtual":
        from checks import c03v
        return c03v.check_case(case)
    return c02.run_config(case, "write")


def sample_of(case):
    if case.get("layout") == "virtual":
        from checks import c03v
        return {"config": case, "emb": c03v.module_for(case)[0]}
    return c02.sample_of(case)
