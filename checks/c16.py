"""C16 -- the compiler is total: any input yields output or well-formed located errors.
Fault enumeration: every single-token deletion, duplication, replacement by / insertion of
each member of a token alphabet at every token position of every base program; truncation at
every token boundary and at every character of the last line; all short strings over a byte
alphabet; the rejection catalogues of other checks.  Oracle: no exception escapes, result is
(IR, header) xor non-empty located error groups that render."""
import glob
import itertools
import json
import os

from vk import common, embgen, explore

PROPERTY = "C16"
LEVEL = "fault_enumeration"
RULE = ("bases = EmbSpace programs at <=1 deviation (quick: 48 programs + the 3 smallest corpus files; thorough: all + whole corpus) ; for every "
        "token position of every base: delete, duplicate, replace by and insert each of 38 alphabet tokens; truncate at every token "
        "boundary and every character of the last line; all strings of length <=3 over a 22-character alphabet incl. NUL, BOM, "
        "multi-byte UTF-8 and control characters; a catalogue of semantically odd programs. Oracle: no exception, (IR and header) "
        "xor non-empty error groups, every message names a given file and a position inside it (never 0:0), is not synthetic, and "
        "renders with and without colour; CPU watchdog 10 s. Non-trivial = mutant that passes tokenizer and parser; distinct by text.")
ASSUMPTIONS = ["the real tokenizer is used only to find token boundaries of the valid base programs",
               "10 s of CPU time stands for non-termination"]
TIMEOUT = 3000

ALPHABET = ["struct", "bits", "enum", "external", "import", "as", "if", "let", "$default", "$next", "$present", "$max", "$size_in_bytes",
            "$upper_bound", "(", ")", "[", "]", ":", ",", ".", "+", "-", "*", "==", "<", "&&", "?", "1", "0x", "name", "Name", "NAME",
            '"s"', "-- doc", "#c", "true", "Bad_Name", "$bad", "this", "UInt", "\n", "\n    "]
RAW = ["a", "A", "0", " ", "\n", "\t", ":", "[", "]", "-", "#", '"', "$", "\x00", "﻿", "é", " ", "\x0c", "\\", "=", ".", "("]

CATALOGUE = [
    "struct Foo:\n",
    "struct Foo:\n  0 [+1]  UInt  x\n  if Foo.x == 1:\n    1 [+1]  UInt  y\n",
    "struct Foo(p: UInt:8):\n  0 [+1]  UInt  x\n  if $present(p):\n    1 [+1]  UInt  y\n",
    "struct Foo(p: UInt:8):\n  0 [+1]  UInt  x\nstruct Bar:\n  0 [+1]  Foo(true)  f\n",
    "enum Ee:\n  [is_signed: 1]\n  AA = 1\n",
    "external Ext:\n  [is_integer: true]\n  [addressable_unit_size: 8]\nstruct Foo:\n  0 [+1]  Ext  x\n  x [+1]  UInt  y\n",
    "struct Foo:\n  0 [+4]  UInt:8[][2]  x\n",
    "struct Foo:\n  0 [+1]  UInt  x\n    [requires: \"abc\"]\n",
    "struct Foo:\n  let a = b\n  let b = c.d\n  0 [+1]  UInt  c\n",
    "struct Foo:\n  0 [+1]  UInt  x\n  let y = $size_in_bytes * 9223372036854775807 * 4\n",
    "struct Foo:\n  0 [+18446744073709551616]  UInt:8[]  x\n",
    "struct Foo:\n  0 [+1]  UInt  x\n  1 [+1]  Foo  rec\n",
    "struct Foo:\n  0 [+1]  Bar  b\nstruct Bar:\n  0 [+1]  Foo  f\n",
    "import \"nonexistent.emb\" as x\nstruct Foo:\n  0 [+1]  x.Bar  b\n",
    "import \"m.emb\" as me\nstruct Foo:\n  0 [+1]  UInt  b\n",
    "struct Foo:\n  0 [+1]  UInt  x\n  [requires: x.y.z == 1]\n",
    "struct Foo:\n  0 [+1]  UInt:8[3]  x\n  x[0] [+1]  UInt  y\n",
    "bits Foo:\n  0 [+65]  UInt  x\n",
    "bits Foo:\n  0 [+8]  Foo  x\n",
    "struct Foo:\n  $next [+1]  UInt  x\n",
    "struct Foo:\n  0 [+$next]  UInt:8[]  x\n",
    "struct Foo:\n  0 [+1]  UInt  x\n  let v = $static_size_in_bits\n",
    "struct Foo:\n  0 [+1]  UInt  x (xx)\n  0 [+1]  UInt  y (xx)\n  xx [+1]  UInt  z\n",
    "[$default byte_order: \"Middle\"]\nstruct Foo:\n  0 [+2]  UInt  x\n",
    "[(cpp) namespace: \"\"]\nstruct Foo:\n  0 [+1]  UInt  x\n",
    "[(cpp) namespace: \"a::::b\"]\nstruct Foo:\n  0 [+1]  UInt  x\n",
    "[(cpp) $default enum_case: \"snake\"]\nenum Ee:\n  AA = 1\n",
    "enum Ee:\n  AA = 1\n    [(cpp) enum_case: \"kCamelCase,,SHOUTY_CASE\"]\n",
    "struct Foo:\n  0 [+1]  UInt  x\n    [text_output: \"Maybe\"]\n",
    "struct Foo:\n  0 [+1]  Float  x\n",
    "struct Foo:\n  0 [+4]  Float:16  x\n",
    "enum Ee:\n  AA = 18446744073709551616\n",
    "enum Ee:\n  AA = -1\n  BB = 18446744073709551615\n",
    "struct Foo:\n  0 [+1]  UInt  x\n  let y = x ? 1 : 2\n",
    "struct Foo:\n  0 [+1]  UInt  x\n  let y = $max()\n",
    "struct Foo:\n  0 [+1]  UInt  x\n  let y = $upper_bound(x, x)\n",
    "struct Foo:\n  0 [+1]  UInt  x\n  let y = $present(1)\n",
    "struct Foo:\n  0 [+1]  UInt  x\n  let y = 1 < x < 3 > 2\n",
    "struct Foo:\n  0 [+1]  UInt  x\n  let y = x == 1 == true\n",
    "struct Foo:\n  0 [+1]  UInt  x\n  let y = - - x\n",
    "struct Foo:\n  -1 [+1]  UInt  x\n  0 [+-1]  UInt:8[]  y\n",
    "struct Foo:\n  0 [+0]  UInt  x\n",
    "struct Foo:\n  0 [+1]  UInt:8[0]  x\n",
    "struct Foo:\n  0 [+1]  UInt:8[-1]  x\n",
    "struct Foo:\n  0 [+1]  bits:\n    0 [+8]  bits:\n      0 [+8]  UInt  x\n",
    "struct Foo:\n  enum Ee:\n    AA = 1\n  struct Foo:\n    0 [+1]  Ee  e\n  0 [+1]  Foo  f\n",
    # a type error in a start, size or condition: the synthesized $size_in_bytes copy fails one pass earlier
    "struct Foo:\n  0 [+1]  bits:\n    0 [+1]  Flag  fl\n  1 [+fl]  UInt:8[]  x\n",
    "struct Foo:\n  0 [+1]  bits:\n    0 [+1]  Flag  fl\n  fl [+1]  UInt  x\n",
    "struct Foo:\n  0 [+1]  UInt  n\n  if n:\n    1 [+1]  UInt  x\n",
    "struct Foo:\n  0 [+1]  UInt  n\n  if n + true:\n    1 [+1]  UInt  x\n",
    "struct Foo:\n  0 [+1]  UInt  n\n  n == 1 [+1]  UInt  x\n",
    "enum Ee:\n  AA = 1\nstruct Foo:\n  0 [+1]  Ee  e\n  e [+1]  UInt  x\n",
    "struct Foo:\n  0 [+1]  Flag:2  f\n",
    "struct Foo:\n  0 [+4]  UInt:16  f\n",
    # shapes behind defects found after the first build (zero width referenced, forward-referenced ill-typed let, ...)
    "struct Foo:\n  0 [+0]  UInt  x\n  let y = x\n",
    "bits Foo:\n  0 [+0]  Int  x\n  if x == 0:\n    1 [+1]  Flag  f\n",
    "struct Foo(p: Int:0):\n  0 [+1]  UInt  x\n",
    "struct Foo:\n  0 [+- 2]  UInt  x\n  let y = x\n",
    "struct Foo:\n  0 [+1]  UInt  x\n  1 [+1]  bits:\n    0 [+1]  Flag  flag\n  let a = b + 1\n  let b = x + flag\n",
    "struct Early:\n  0 [+1]  UInt  e\n  let early = Foo.bad\nstruct Foo:\n  0 [+1]  UInt  x\n  let bad = x + true\n",
    "struct Foo(class: UInt:8):\n  0 [+1]  UInt  x\n",
    "struct Foo:\n  0 [+2]  bits:\n    0 [+8]  UInt  x\n",
    "struct Foo:\n  0 [+2]  struct  foo:\n    0 [+1]  bits:\n      0 [+4]  UInt  a\n    1 [+1]  UInt  b\n",
    # keywords inside attribute values and type arguments; static references in places evaluated early
    "struct Foo:\n  0 [+1]  UInt  x\n    [requires: $next > this]\n",
    "struct Foo:\n  [requires: $next > 1]\n  0 [+1]  UInt  x\n",
    "struct Par(p: UInt:8):\n  0 [+1]  UInt  x\nstruct Foo:\n  0 [+1]  UInt  a\n  1 [+1]  Par($next)  y\n",
    "struct Foo:\n  [fixed_size_in_bits: $next]\n  0 [+1]  UInt  x\n",
    "enum Ee:\n  [maximum_bits: $next]\n  AA = 1\n",
    "struct Foo:\n  0 [+1]  UInt  x\n    [requires: $is_statically_sized && this < 4]\n",
    "struct Foo:\n  0 [+1]  UInt  x\n    [requires: $static_size_in_bits == 8]\n",
    "struct Foo:\n  0 [+2]  UInt  x\n    [byte_order: $next]\n",
    "struct Foo:\n  0 [+1]  UInt  n\n  let foo_offset = n + 1\n  Foo.foo_offset [+4]  UInt  foo\n",
    "struct Ss:\n  0 [+1]  UInt  x\n  let v = x + 1\nenum Ff:\n  BB = Ss.v\n",
    "struct Ss:\n  0 [+1]  UInt  x\n  let v = x + 1\nstruct Tt:\n  [fixed_size_in_bits: Ss.v]\n  0 [+1]  UInt  y\n",
    "struct Dyn:\n  0 [+1]  UInt  n\n  1 [+n]  UInt:8[]  d\nstruct Tt:\n  0 [+Dyn.$size_in_bytes]  UInt:8[]  y\n",
    "struct Par(p: UInt:8):\n  0 [+1]  UInt  x\nstruct Foo:\n  0 [+1]  UInt  y\n  let v = Par.p\n",
    "struct Foo(p: UInt:8):\n  0 [+1]  UInt  x\n  let v = p\n  let w = v.x\n",
    "struct Foo(p: UInt:8[4]):\n  0 [+p]  UInt:8[]  x\n",
    "[expected_back_ends: 1]\nstruct Foo:\n  0 [+1]  UInt  x\n",
    "struct Foo:\n  0 [+1]  UInt  n\n  1 [+n]  UInt  x\n  2 [+x]  UInt  y\n",
    "struct Foo:\n  0 [+1]  UInt  n\n  1 [+n]  UInt  x\n  $lower_bound(x) [+1]  UInt  q\n",
    "external Ext:\n  [static_requirements: $upper_bound($static_size_in_bits) == 8]\n  [addressable_unit_size: 8]\nstruct Foo:\n  0 [+1]  Ext  x\n",
    "struct Empty:\n  let k = 1\nstruct Foo:\n  0 [+0]  Empty[3]  x\n",
    "struct Foo:\n  0 [+0]  UInt:8[0][4]  x\n",
    "struct Foo:\n  -1 [+2]  UInt  x\n",
    "struct Foo:\n  0 [+1]  UInt  n\n  1 [+n]  bits:\n    0 [+4]  UInt  a\n",
    "struct Foo:\n  0 [+9]  bits:\n    0 [+4]  UInt  a\n",
    "struct Foo:\n  0 [+1]  UInt:16[]  x\n",
    "struct Foo:\n  let n = 2\n  0 [+n]  UInt  x\n",
    "struct Foo:\n  0 [+1]  UInt  x\n  1 [+x * 0 + 1]  UInt  y\n",
    "struct Foo:\n  0 [+4]  UInt  tag\n  if tag == -1:\n    4 [+1]  UInt  a\n  if tag == 4294967296:\n    4 [+1]  UInt  b\n",
    "struct Foo:\n  0 [+1]  UInt  a\n  let b = a + 10\n  let e = b\n",
    "struct Foo:\n  0 [+1]  UInt  y\n  if false:\n    let z = 7\n",
    # open findings (see known_findings.json): overflow only in the synthesized size; self-recursive member reference
    "struct Foo:\n  0 [+8]  UInt  offset\n  offset [+1]  UInt  x\n",
    "struct Data:\n  0 [+1]  Data  d1\n  let x = d1.x\n",
    "struct Foo:\n  0 [+1]  UInt  f0\n" + "".join("  $next [+1]  UInt  f%d\n" % i for i in range(1, 200)),
    # $next in every position of a field's size and start expression, before a field that itself starts at $next
    "struct Foo:\n  0 [+1]  UInt  a\n  1 [+$next]  UInt:8[]  b\n  $next [+1]  UInt  c\n",
    "struct Foo:\n  0 [+1]  UInt  a\n  1 [+$next-3]  UInt:8[]  b\n  $next [+1]  UInt  c\n",
    "struct Foo:\n  0 [+1]  UInt  a\n  1 [+1+$next]  UInt:8[]  b\n  $next [+1]  UInt  c\n",
    "struct Foo:\n  0 [+1]  UInt  a\n  1 [+$max(1, $next)]  UInt:8[]  b\n  $next [+1]  UInt  c\n",
    "struct Foo:\n  0 [+1]  UInt  a\n  1 [+$next*1]  UInt:8[]  b\n  $next [+1]  UInt  c\n",
    "struct Foo:\n  0 [+1]  UInt  a\n  1 [+a+$next]  UInt:8[]  b\n  $next [+1]  UInt  c\n",
    "struct Foo:\n  0 [+1]  UInt  a\n  1 [+$next+$next]  UInt:8[]  b\n  $next [+1]  UInt  c\n",
    "struct Foo:\n  0 [+1]  UInt  a\n  1 [+($next)]  UInt:8[]  b\n  $next [+1]  UInt  c\n",
    "struct Foo:\n  0 [+1]  UInt  a\n  $next+1 [+1]  UInt  b\n  $next [+1]  UInt  c\n",
    "struct Foo:\n  0 [+1]  UInt  a\n  $max($next, 4) [+1]  UInt  b\n  $next [+1]  UInt  c\n",
    "struct Foo:\n  0 [+1]  UInt  a\n  $next+$next [+1]  UInt  b\n  $next [+1]  UInt  c\n",
    "struct Foo:\n  0 [+1]  UInt  a\n  2*$next-1 [+1]  UInt  b\n  $next [+1]  UInt  c\n",
    "struct Foo:\n  $next [+1]  UInt  a\n  $next [+1]  UInt  b\n",
    "struct Foo:\n  0 [+1]  UInt  a\n  let v = $next\n  $next [+1]  UInt  c\n",
    "struct Foo:\n  0 [+1]  UInt  a\n  if $next == 1:\n    $next [+1]  UInt  c\n",
    # definitions in terms of themselves through a nested instance; chains that used to take exponential time
    "struct Node:\n  0 [+1]  UInt  n\n  1 [+2]  Node  child\n  let a = child.a\n  let z = a.n\n",
    "struct Node:\n  0 [+1]  UInt  n\n  1 [+2]  Node  child\n  let a = child.a\n",
    "struct Node:\n  0 [+1]  UInt  n\n  1 [+2]  Node  child\n  let a = child.a + 1\n",
    "struct Foo:\n  0 [+1]  UInt  x\n  let a0 = x\n" + "".join("  let a%d = $max(a%d, a%d)\n" % (i + 1, i, i) for i in range(24)),
    "struct Foo:\n  0 [+1]  UInt  x\n  let a0 = x\n" + "".join("  let a%d = a%d + a%d\n" % (i + 1, i, i) for i in range(24)),
    # astronomically wide integers that are referenced
    "struct Foo:\n  0 [+4_000_000_000]  UInt  tag\n  let y = tag\n",
    "struct Foo:\n  0 [+100_000_000]  Int  tag\n  if tag == 1:\n    0 [+1]  UInt  z\n",
    "struct Foo(p: Int:1000000000):\n  0 [+1]  UInt  x\n  let y = p\n",
    "struct Foo:\n  0 [+2000]  UInt  tag\n  let y = tag\n",
] + [
    # numeric literals far beyond any integer type, in every radix and several positions (Python's 4300-digit limit)
    tmpl % lit
    for lit in ("9" * 4301, "1" + "0" * 6000, "0x" + "f" * 3600, "0b" + "1" * 14400, "0" * 5000 + "1", "1_000" * 1200)
    for tmpl in ("struct Foo:\n  0 [+1]  UInt  x\n    [requires: this < %s]\n", "struct Foo:\n  0 [+%s]  UInt:8[]  x\n",
                 "enum Ee:\n  AA = %s\n", "struct Foo:\n  0 [+1]  UInt  x\n  let y = x + %s\n", "struct Foo:\n  %s [+1]  UInt  x\n")
]


def nestings(depth):
    """Every nesting of the inline constructs (anonymous bits, inline enum/bits/struct, conditionals) to `depth`."""
    counter = [0]

    def fresh(prefix):
        counter[0] += 1
        return "%s%d" % (prefix, counter[0])

    def items(kind, d, ind):
        unit = 1 if kind == "struct" else 4
        plain = ["%s0 [+%d]  UInt  %s" % (ind, unit, fresh("f"))]
        out = [plain]
        if d == 0:
            return out
        kids_bits = items("bits", d - 1, ind + "    ") if d > 0 else []
        kids_struct = items("struct", d - 1, ind + "    ") if d > 0 else []
        for body in kids_bits:
            out.append(["%s0 [+%d]  bits:" % (ind, unit)] + body)
            out.append(["%s0 [+%d]  bits  %s:" % (ind, unit, fresh("ib"))] + body)
            out.append(["%sif true:" % ind, "%s  0 [+%d]  bits:" % (ind, unit)] + ["  " + l for l in body])
        out.append(["%s0 [+%d]  enum  %s:" % (ind, unit, fresh("en")), "%s    AA = 1" % ind])
        out.append(["%s0 [+%d]  enum  %s:" % (ind, unit, fresh("en")), "%s    [maximum_bits: %d]" % (ind, 8 if kind == "struct" else 4), "%s    AA = 1" % ind])
        if kind == "struct":
            for body in kids_struct:
                out.append(["%s0 [+%d]  struct  %s:" % (ind, 2, fresh("is"))] + body)
                out.append(["%sif true:" % ind, "%s  0 [+2]  struct  %s:" % (ind, fresh("is"))] + ["  " + l for l in body])
        return out

    texts = []
    for kind in ("struct", "bits"):
        for body in items(kind, depth, "  "):
            texts.append("%s Top:\n" % kind + "\n".join(body) + "\n")
    return texts


def bounds(tier):
    return {"bases": 48 if tier == "quick" else "all", "alphabet": len(ALPHABET), "raw_len": 3}


def base_texts(tier):
    bases = []
    for forced, trace, prog in explore.enumerate_vectors(embgen.program, 1):
        bases.append(("emb:" + json.dumps(explore.vector_of(forced, trace)), prog.files()["m.emb"]))
    corpus = sorted(glob.glob(os.path.join(common.REPO, "testdata", "*.emb")))
    if tier == "quick":
        bases.sort(key=lambda b: (len(b[1]), b[0]))
        # the shortest programs and one program per dimension of the menu
        pick = bases[:30] + bases[30::8]
        bases = pick[:48]
        corpus = sorted((f for f in corpus if "import" not in open(f).read()), key=os.path.getsize)[:3]
    for f in corpus:
        t = open(f, encoding="utf-8").read()
        if "\nimport " in "\n" + t:
            continue
        bases.append(("corpus:" + os.path.basename(f), t))
    return bases


def gen_cases(tier):
    for i, (label, text) in enumerate(base_texts(tier)):
        if tier != "quick" and len(text) > 400:
            # long corpus files have tens of thousands of mutants: slice them so that no unit dominates the run
            total = sum(1 for _ in mutants(text))
            for lo in range(0, total, 4000):
                yield {"kind": "base", "label": "%s[%d:%d]" % (label, lo, lo + 4000), "text": text, "lo": lo, "hi": lo + 4000}
        else:
            yield {"kind": "base", "label": label, "text": text}
    yield {"kind": "raw"}
    yield {"kind": "catalogue"}
    yield {"kind": "nesting", "depth": 2 if tier == "quick" else 3}
    for part in range(6):
        yield {"kind": "cli", "part": part, "parts": 6}


def offsets_of(text):
    """(start, end) character offsets of the tokens of a valid base text."""
    e = common.emb()
    tokens, errors = e.tokenizer.tokenize(text, "m.emb")
    lines = text.split("\n")
    starts = [0]
    for l in lines:
        starts.append(starts[-1] + len(l) + 1)
    out = []
    for t in tokens or []:
        if t.symbol in ("Indent", "Dedent", '"\\n"'):
            continue
        l = t.source_location
        a = starts[l.start.line - 1] + l.start.column - 1
        b = starts[l.end.line - 1] + l.end.column - 1
        out.append((a, b))
    return out


def mutants(text):
    offs = offsets_of(text)
    for (a, b) in offs:
        yield text[:a] + text[b:]
        yield text[:b] + " " + text[a:b] + text[b:]
        for t in ALPHABET:
            yield text[:a] + t + text[b:]
            yield text[:a] + t + " " + text[a:]
    for (a, b) in offs:
        yield text[:a]
        yield text[:b]
        yield text[:b] + "\n"
    last = text.rstrip("\n").rfind("\n") + 1
    for k in range(last, len(text) + 1):
        yield text[:k]
    # every line terminator str.splitlines knows, with an error on the last line
    body = text.rstrip("\n")
    for term in ("\r", "\r\n", "\x0b", "\x0c", "\x1c", "\x85", "\u2028", "\u2029"):
        t2 = body.replace("\n", term)
        yield t2 + term
        yield t2 + term + "struct 5:" + term
        yield t2[:-1] + term
        yield t2 + term + "  let qq = nosuchfield" + term
    # indentation faults
    lines = text.split("\n")
    for i, l in enumerate(lines):
        if l.strip():
            for ind in ("", " ", "   ", "\t", "      "):
                yield "\n".join(lines[:i] + [ind + l.lstrip()] + lines[i + 1:])


def check_text(text, files=None, main="m.emb"):
    """Returns (violation or None, stage)."""
    e = common.emb()
    files = dict(files or {})
    files[main] = text
    try:
        with common.watchdog(10):
            ir, errors, ex = common.front_end(files, main, keep_cache=False)
            header = herr = hex_ = None
            if ex is None and not errors:
                header, herr, hex_ = common.back_end(ir)
    except common.CaseTimeout:
        # the point at which the timer fires is arbitrary, so the finding is identified by a shape of the input:
        # its first word pair and the most frequent line (digits removed), e.g. "struct Foo:|$next [+N] UInt fN"
        import collections as _c
        import re as _r
        shape = _c.Counter(_r.sub(r"[0-9]+", "N", l.strip()) for l in text.split("\n") if l.strip()).most_common(1)
        return {"key": "nontermination@" + (shape[0][0][:40] if shape else ""), "msg": "more than 10 s of CPU"}, "timeout"
    except RecursionError as rex:
        import traceback as _t
        import collections as _c
        frames = [f for f in _t.extract_tb(rex.__traceback__) if common.REPO in f.filename]
        top = _c.Counter("%s:%s" % (os.path.basename(f.filename), f.name) for f in frames[-200:]).most_common(1)
        return {"key": "crash:RecursionError@" + (top[0][0] if top else "?"), "msg": "RecursionError"}, "crash"
    if ex is not None:
        return {"key": common.exc_key(ex), "msg": repr(ex)[:300]}, "crash"
    if hex_ is not None:
        return {"key": common.exc_key(hex_), "msg": "back end: " + repr(hex_)[:300]}, "crash"
    if not errors and not herr:
        if ir is None or not header:
            return {"key": "no-output-and-no-errors", "msg": ""}, "accepted"
        return None, "accepted"
    errs = errors or herr
    stage = "rejected"
    if not isinstance(errs, list) or not errs or any((not isinstance(g, list)) or not g for g in errs):
        return {"key": "malformed-error-list", "msg": repr(errs)[:200]}, stage
    for g in errs:
        for m in g:
            f = m.source_file
            loc = m.location
            import re as _re
            imported = set(_re.findall(r'import "([^"]*)"', "\n".join(files.values())))
            if f not in files and f != "" and f not in imported:
                return {"key": "error-names-unknown-file", "msg": "%r: %s" % (f, m.message[:100])}, stage
            src = files.get(f)
            if src is None:
                continue          # prelude, or an import that could not be read (position 1:1 by convention)
            lines = src.splitlines() or [""]
            sl, sc, el, ec = loc.start.line, loc.start.column, loc.end.line, loc.end.column
            if sl == 0 or sc == 0:
                return {"key": "location:0:0@" + m.message.split(chr(10))[0][:40], "msg": "%s: %s" % (f, m.message.split(chr(10))[0][:120])}, stage
            if loc.is_synthetic:
                import re as _r2
                return {"key": "location:synthetic@" + _r2.sub(r"[0-9]+", "N", m.message.split(chr(10))[0])[:40], "msg": m.message.split(chr(10))[0][:120]}, stage
            if not (1 <= sl <= len(lines) + 1) or not (1 <= el <= len(lines) + 1):
                return {"key": "location:line-out-of-file", "msg": "%s line %d of %d: %s" % (f, sl, len(lines), m.message.split(chr(10))[0][:100])}, stage
            ltxt = lines[sl - 1] if sl <= len(lines) else ""
            if sc > len(ltxt) + 2:
                return {"key": "location:column-out-of-line", "msg": "%s %d:%d (line has %d chars): %s" % (
                    f, sl, sc, len(ltxt), m.message.split(chr(10))[0][:100])}, stage
            if not m.message:
                return {"key": "empty-message", "msg": ""}, stage
    for colour in (False, True):
        try:
            out = e.error.format_errors(errs, files, colour)
            if not out:
                return {"key": "render-empty", "msg": ""}, stage
        except Exception as rex:  # noqa
            return {"key": "render-" + common.exc_key(rex), "msg": repr(rex)[:200]}, stage
        if not colour:
            from vk import tokref
            for g in errs:
                for m in g:
                    src = files.get(m.source_file)
                    if src is None or m.location.is_synthetic:
                        continue
                    lines = tokref.split_lines(src)
                    ln = m.location.start.line
                    if 1 <= ln <= len(lines) and lines[ln - 1].strip() and lines[ln - 1] not in out:
                        return {"key": "render-wrong-source-line", "msg": "message at %s:%d does not show that line (%r)" % (
                            m.source_file, ln, lines[ln - 1][:60])}, stage
    return None, stage


def _stage(text):
    e = common.emb()
    tokens, errs = e.tokenizer.tokenize(text, "m.emb")
    if errs:
        return "tokenizer"
    if e.parser.parse_module(tokens).error:
        return "parser"
    return "semantic"


def run_many(texts, label_prefix, files=None):
    viol = []
    nt = []
    stats = {"accepted": 0, "rejected": 0, "reached_semantic": 0}
    n = 0
    seen_text = set()
    for t in texts:
        if t in seen_text:
            continue
        seen_text.add(t)
        n += 1
        v, stage = check_text(t, files)
        if stage in ("accepted", "rejected"):
            stats[stage] += 1
        if v:
            v["detail"] = {"text": t}
            v["subcase"] = {"kind": "text", "text": t}
            v["msg"] = "%s | input %r" % (v["msg"], t[-160:])
            viol.append(v)
        if stage == "accepted" or (stage != "crash" and n % 7 == 0 and _stage(t) == "semantic"):
            stats["reached_semantic"] += 1
            nt.append("%s#%d" % (label_prefix, n))
    seen, keep = {}, []
    for v in viol:
        seen[v["key"]] = seen.get(v["key"], 0) + 1
        if seen[v["key"]] <= 2:
            keep.append(v)
    return {"viol": keep, "n": n, "nt": nt, "stats": stats}


def check_case(case):
    k = case["kind"]
    if k == "text":
        v, stage = check_text(case["text"])
        return {"viol": [v] if v else [], "n": 1}
    if k == "base":
        ms = mutants(case["text"])
        if "lo" in case:
            ms = itertools.islice(ms, case["lo"], case["hi"])      # a slice of a long base (thorough tier): balanced units
        return run_many(ms, case["label"])
    if k == "raw":
        texts = []
        for n in range(0, 4):
            for cs in itertools.product(RAW, repeat=n):
                texts.append("".join(cs))
        return run_many(texts, "raw")
    if k == "catalogue":
        texts = list(CATALOGUE)
        for c in CATALOGUE:
            texts.append('[$default byte_order: "LittleEndian"]\n' + c)
        imp = "# imported module\n" + "\n" * 9 + "struct Bar:\n  let k = 3\n  0 [+1]  UInt  x\n  1 [+1]  UInt                                             far_right_field\nenum En:\n  AA = 1\n\n\n\nstruct Word:\n  0 [+2]  UInt  v\n" + "\n" * 20 + "struct Bad:\n  0 [+1]  UInt  x\n  1 [+1]  bits:\n    0 [+1]  Flag  flag\n  let bad = x + flag\nenum Flag:\n  OFF = 0\n  ON = 1\n"
        multi = [
            'import "imp.emb" as im\nstruct Foo:\n  0 [+1]  UInt  x\n  if im.Bar.x == 1:\n    1 [+1]  UInt  y\n',
            'import "imp.emb" as im\nstruct Foo:\n  im.Bar.far_right_field [+1]  UInt  x\n',
            'import "imp.emb" as im\nstruct Foo:\n  0 [+1]  im.Bar  b\n  let v = b.nosuch\n',
            'import "imp.emb" as im\nstruct Foo:\n  0 [+1]  im.Nope  b\n',
            'import "imp.emb" as im\nstruct Foo:\n  0 [+1]  UInt  x\n  let v = im.En.BB\n',
            'import "imp.emb" as im\nstruct Foo:\n  0 [+1]  im.En.AA  x\n',
            'import "imp.emb" as im\nstruct Bar:\n  0 [+1]  UInt  x\nstruct Foo:\n  0 [+1]  Bar  a\n  1 [+1]  im.Bar  b\n  let v = a.far_right_field\n',
            'import "imp.emb" as im\nimport "imp.emb" as im\nstruct Foo:\n  0 [+1]  UInt  x\n',
            'import "imp.emb" as im\nstruct Foo(p: im.Bar):\n  0 [+1]  UInt  x\n',
            'import "imp.emb" as im\nstruct Foo:\n  0 [+4]  im.Word:32  w\n',
            'import "imp.emb" as im\nstruct Foo:\n  0 [+1]  im.Word:8  w\n',
            'import "imp.emb" as im\nstruct Foo:\n  0 [+3]  im.Word  w\n',
            'import "imp.emb" as im\nstruct Foo:\n  0 [+2]  im.Word[2]  w\n',
            'import "imp.emb" as im\nstruct Foo:\n  0 [+2]  im.Bar(1)  w\n',
            'import "imp.emb" as im\nstruct Foo:\n  0 [+1]  UInt  x\n  let v = im.En.AA + 1\n',
            # an error inside the imported module, first reached through a reference from the importing one
            'import "imp.emb" as im\nstruct Foo:\n  0 [+2]  im.Bad  inner\n  let q = inner.bad + 1\n',
            'import "imp.emb" as im\nstruct Foo:\n  0 [+1]  UInt  x\n  let v = im\n',
            'import "imp.emb" as im\nstruct Foo:\n  0 [+im]  UInt:8[]  x\n',
            'import "imp.emb" as im\nstruct Foo:\n  0 [+1]  UInt  x\n    [requires: im]\n',
            'import "imp.emb" as im\nstruct Foo:\n  0 [+1]  im.Flag  f\n  let is_on = f == im.Flag.ON\n',
            'import "imp.emb" as im\nstruct Foo:\n  0 [+1]  im.Flag  f\n  if f:\n    1 [+1]  UInt  x\n',
        ]
        return run_many(texts + multi, "catalogue", files={"imp.emb": imp})
    if k == "nesting":
        texts = nestings(case["depth"])
        texts += ['[$default byte_order: "LittleEndian"]\n' + t for t in texts]
        return run_many(texts, "nesting")
    if k == "cli":
        import subprocess
        import sys
        import tempfile
        import shutil
        viol = []
        n = 0
        samples = [CATALOGUE[0], CATALOGUE[13], "struct Foo:\n  0 [+1]  UInt  x\n", "struct Foo:\n  0 [+1  UInt  x\n", "\x00", "enum Ee:\n  AA = true\n",
                   "struct Foo:\n  0 [+1]  UInt  x\n    [requires: this < %s]\n" % ("9" * 4301)]
        # files that are not text at all: every 1- and 2-byte string over a small byte alphabet, and valid programs with
        # one non-UTF-8 byte in a comment / a name / a truncated multi-byte character at the end
        BYTES = [b"\xe9", b"\xff", b"\xfe", b"\x80", b"\xc3", b"\xe2\x82", b"\n", b"a"]
        raw = [a for a in BYTES] + [a + b for a in BYTES for b in BYTES]
        raw += [b"struct Foo:\n  # caf\xe9\n  0 [+1]  UInt  x\n", b"struct Foo:\n  0 [+1]  UInt  x\xe9\n", b"struct Foo:\n  0 [+1]  UInt  x\n  -- \xe2\x82",
                b"\xef\xbb\xbfstruct Foo:\n  0 [+1]  UInt  x\n", b'import "bad.emb" as b\nstruct Foo:\n  0 [+1]  UInt  x\n']
        every = samples + raw
        # imports that name something on the import path which is not an openable regular file
        every += ['import "%s" as x\nstruct Foo:\n  0 [+1]  UInt  y\n' % nm for nm in (
            "sub", ".", "..", "/", "sub/", "other.emb/inner.emb", "sub/nested", "n" * 300 + ".emb", "", "m.emb/.")]
        for text in every[case.get("part", 0)::case.get("parts", 1)]:
            d = tempfile.mkdtemp(prefix="embverif-")
            try:
                os.makedirs(os.path.join(d, "sub", "nested"))
                with open(os.path.join(d, "other.emb"), "w") as f:
                    f.write("struct Other:\n  0 [+1]  UInt  z\n")
                if isinstance(text, bytes):
                    with open(os.path.join(d, "m.emb"), "wb") as f:
                        f.write(text)
                    with open(os.path.join(d, "bad.emb"), "wb") as f:
                        f.write(b"struct Bar:\n  # \xff\n  0 [+1]  UInt  x\n")
                    tools = (("embossc", ["--color-output", "never", "--output-path", "out", "m.emb"]),)
                    text = repr(text)
                else:
                    with open(os.path.join(d, "m.emb"), "w", encoding="utf-8") as f:
                        f.write(text)
                    tools = (("embossc", ["--color-output", "never", "--output-path", "out", "m.emb"]),
                             ("emboss-format", ["--no-edit-in-place", "--color-output", "never", "m.emb"]))
                env = dict(os.environ, PYTHONPATH=common.REPO)
                env.pop("PYTHONDONTWRITEBYTECODE", None)
                for tool, args in tools:
                    r = subprocess.run([sys.executable, os.path.join(common.REPO, tool)] + args, capture_output=True, text=True, cwd=d, env=env, timeout=300)
                    n += 1
                    if "Traceback (most recent call last)" in r.stderr:
                        last = [l for l in r.stderr.strip().split("\n") if l.strip()][-1]
                        viol.append({"key": "cli-traceback:" + tool + ":" + last.split(":")[0], "msg": "%s on %r: %s" % (tool, text[:60], last[:200]),
                                     "detail": {"text": text, "stderr": r.stderr[-1500:]}})
            finally:
                shutil.rmtree(d, ignore_errors=True)
        return {"viol": viol, "n": n, "nt": ["cli-%d-%d" % (case.get("part", 0), i) for i in range(n)]}
    raise ValueError(k)


def sample_of(case):
    if case["kind"] == "base":
        ms = list(itertools.islice(mutants(case["text"]), 60, 63))
        return {"base": case["label"], "base_text": case["text"], "three_mutants": ms}
    return case
