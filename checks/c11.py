"""C11 -- the formatter preserves meaning, is idempotent, and never fails on valid input.
(a) every token sequence up to a length bound that the real expression parser accepts over a
    19-symbol alphabet, placed as a virtual-field value, a field offset and an attribute value;
(b) EmbSpace programs dressed with comments, documentation, blank lines, odd spacing, trailing
    blanks; (c) the testdata and testdata/format corpus; all under indent widths 1-8."""
import glob
import json
import os

from vk import common, embgen, explore

PROPERTY = "C11"
LEVEL = "exploration"
RULE = ("(a) all expression token sequences of length <=6 (quick) / <=7 (thorough) accepted by the real expression parser over "
        "{x 1 + - * ( ) == < > && || ? : $max , . Aa BB} (enumerated by extending viable prefixes only), each in 3 placements x 2 "
        "spacings; (b) EmbSpace programs at <=1 deviation x 9 dressings x indent 1..8, types nested 1..8 deep x indent 1..8; (c) 45 corpus files x indent 1..8. Oracle: "
        "formatting does not raise, output tokenizes and parses, token streams equal up to whitespace/blank lines/trailing blanks, "
        "build_ir equal after stripping locations, formatting the output again is the identity, built-in self-check empty. "
        "Non-trivial = input whose formatted text differs from it; distinct by (text, indent).")
ASSUMPTIONS = ["token/IR comparison written in checks/c11.py (not the formatter's own self-check, which is checked separately)"]
TIMEOUT = 2400

SYMS = ["x", "1", "+", "-", "*", "(", ")", "==", "<", ">", "&&", "||", "?", ":", "$max", ",", ".", "Aa", "BB"]
_S = {}


def bounds(tier):
    return {"expr_tokens": 6 if tier == "quick" else 7, "indents": list(range(1, 9))}


def setup(tier):
    e = common.emb()
    maxlen = bounds(tier)["expr_tokens"]
    T = e.parser_types.Token
    symmap = {}
    for s in SYMS:
        toks, errs = e.tokenizer.tokenize(s, "")
        symmap[s] = toks[0]
    accepted = []
    from compiler.front_end import parser as P
    stack = [[]]
    while stack:
        pre = stack.pop()
        for s in SYMS:
            seq = pre + [s]
            res = P.parse_expression([symmap[t] for t in seq])
            if res.error is None:
                accepted.append(seq)
                viable = True
            else:
                viable = res.error.index >= len(seq)
            if viable and len(seq) < maxlen:
                stack.append(seq)
    accepted.sort(key=lambda q: (len(q), q))
    _S["accepted"] = accepted


def gen_cases(tier):
    n = len(_S["accepted"])
    for lo in range(0, n, 300):
        yield {"kind": "expr", "lo": lo, "hi": min(n, lo + 300)}
    for forced, trace, prog in explore.enumerate_vectors(embgen.program, 1):
        yield {"kind": "prog", "vector": explore.vector_of(forced, trace)}
    files = sorted(glob.glob(os.path.join(common.REPO, "testdata", "*.emb")) + glob.glob(os.path.join(common.REPO, "testdata", "format", "*.emb")))
    for f in files:
        yield {"kind": "corpus", "file": os.path.relpath(f, common.REPO)}
    for depth in range(1, 9):
        yield {"kind": "nest", "depth": depth}
    # tables whose cells are very long or very short, column by column (every width around common clamps 32/64/80/128)
    for col in ("start", "size", "type", "name", "abbrev", "attr", "doc", "enum_name", "enum_value"):
        yield {"kind": "wide", "column": col}
    yield {"kind": "selfcheck"}
    yield {"kind": "cli"}


def fmt(text, indent):
    e = common.emb()
    tokens, errs = e.tokenizer.tokenize(text, "m.emb")
    if errs:
        return None, "tokenize"
    res = e.parser.parse_module(tokens)
    if res.error:
        return None, "parse"
    out = e.format_emb.format_emboss_parse_tree(res.parse_tree, e.format_emb.Config(indent_width=indent))
    return out, None


def tok_stream(text):
    e = common.emb()
    tokens, errs = e.tokenizer.tokenize(text, "m.emb")
    if errs:
        return None
    out = []
    for t in tokens:
        if t.symbol == '"\\n"':
            if out and out[-1] == ("NL", ""):
                continue
            out.append(("NL", ""))
        elif t.symbol in ("Indent", "Dedent"):
            out.append((t.symbol, ""))
        else:
            out.append((t.symbol, t.text.strip()))
    while out and out[0] == ("NL", ""):
        out.pop(0)
    return out


def ir_json(text):
    e = common.emb()
    tokens, errs = e.tokenizer.tokenize(text, "m.emb")
    if errs:
        return None
    res = e.parser.parse_module(tokens)
    if res.error:
        return None
    ir = e.module_ir.build_ir(res.parse_tree)
    d = e.ir_data_utils.IrDataSerializer(ir).to_dict(exclude_none=True)

    def strip(x):
        if isinstance(x, dict):
            out = {k: strip(v) for k, v in x.items() if k not in ("source_location", "source_text")}
            if isinstance(out.get("documentation"), list):
                # trailing blanks in documentation are explicitly not meaning
                out["documentation"] = [dict(dd, text=dd.get("text", "").rstrip()) if isinstance(dd, dict) else dd
                                        for dd in out["documentation"]]
            return out
        if isinstance(x, list):
            return [strip(v) for v in x]
        return x
    s = json.dumps(strip(d), sort_keys=True)
    import re
    return re.sub(r"(emboss_reserved_anonymous_field_|EmbossReservedAnonymousField)\d+", r"\1N", s)


def check_text(text, indents, label):
    """Returns (violation or None, changed?)."""
    e = common.emb()
    base_tokens = tok_stream(text)
    base_ir = None
    changed = False
    for ind in indents:
        try:
            out, why = fmt(text, ind)
        except Exception as ex:  # noqa
            return {"key": "formatter-" + common.exc_key(ex), "msg": "%s indent=%d: %r" % (label, ind, ex)}, False
        if out is None:
            return None, False          # not parseable: outside the property
        if out != text:
            changed = True
        t2 = tok_stream(out)
        if t2 is None:
            return {"key": "formatted-does-not-tokenize", "msg": "%s indent=%d: %r" % (label, ind, out[-120:])}, changed
        if t2 != base_tokens:
            k = next((i for i, (a, b) in enumerate(zip(t2, base_tokens)) if a != b), min(len(t2), len(base_tokens)))
            key = "tokens-changed"
            return {"key": key, "msg": "%s indent=%d: token %d %r -> %r" % (
                label, ind, k, base_tokens[k] if k < len(base_tokens) else None, t2[k] if k < len(t2) else None)}, changed
        if base_ir is None:
            base_ir = ir_json(text)
        ir2 = ir_json(out)
        if ir2 is None:
            return {"key": "formatted-does-not-parse", "msg": "%s indent=%d: %r" % (label, ind, out[-160:])}, changed
        if ir2 != base_ir:
            return {"key": "ir-changed", "msg": "%s indent=%d" % (label, ind)}, changed
        try:
            out2, _w = fmt(out, ind)
        except Exception as ex:  # noqa
            return {"key": "formatter-" + common.exc_key(ex), "msg": "%s indent=%d second pass: %r" % (label, ind, ex)}, changed
        if out2 != out:
            return {"key": "not-idempotent", "msg": "%s indent=%d" % (label, ind)}, changed
        chk = e.format_emb.sanity_check_format_result(out, text)
        if chk:
            return {"key": "self-check-disagrees", "msg": "%s indent=%d: %s" % (label, ind, chk[0][:150])}, changed
    return None, changed


DRESSINGS = ["plain", "comments", "docs", "blank", "spaces", "trailing", "tabs_in_comment", "attr_lines", "dup_comments", "body_attrs", "inline_docs"]


def nested(depth):
    """Types nested `depth` deep, with conditional fields, docs and attributes at the innermost level."""
    names = ["Aa", "Bb", "Cc", "Dd", "Ee", "Ff", "Gg", "Hh", "Ii", "Jj"]
    lines = []
    for d in range(depth):
        lines.append("  " * d + "struct %s:" % names[d])
        lines.append("  " * (d + 1) + "-- doc %d" % d)
    ind = "  " * depth
    lines += [ind + "enum Kk:", ind + "  -- enum doc", ind + "  [maximum_bits: 8]", ind + "  [is_signed: false]", ind + "  VA = 1", ind + "    -- value doc",
              ind + "    [(cpp) enum_case: \"kCamelCase\"]", ind + "  VB = 2",
              ind + "0 [+1]  UInt  x", ind + "  -- doc x", ind + "  [requires: this < 5]", ind + "if x == 1:", ind + "  1 [+1]  bits:",
              ind + "    [byte_order: \"LittleEndian\"]",
              ind + "    0 [+4]  UInt  lo", ind + "      # comment", ind + "    4 [+4]  UInt  hi",
              ind + "2 [+1]  bits  named:", ind + "  -- inline bits doc", ind + "  [requires: aa == 1]", ind + "  0 [+8]  UInt  aa",
              ind + "3 [+1]  enum  inl:", ind + "  -- inline enum doc", ind + "  [maximum_bits: 8]", ind + "  IV = 1"]
    for d in range(depth - 1, 0, -1):
        lines.append("  " * d + "0 [+2]  %s  f%d" % (names[d], d))
    return "\n".join(lines) + "\n"


def wide_tables(column, L):
    """Field / enum tables in which one column holds a cell of exactly L characters (others short), in the first, a
    middle and the last row, so that both the clamping of the column and its neighbours' alignment are exercised."""
    def name(prefix, n, camel=False):
        body = (("Ab" if camel else "ab") * (n // 2 + 1))[:max(n - len(prefix), 0)]
        return (prefix + body)[:n] if n >= len(prefix) else prefix[:max(n, 1)]
    out = []
    for where in (0, 1, 2):
        rows = []
        types = ""
        for i in range(3):
            start, size, typ, nm, abbr, attr, doc = str(i), "1", "UInt", "f%d" % i, "", "", ""
            if i == where:
                if column == "start":
                    start = "+".join(["%d" % i] + ["0"] * max((L - 1) // 2, 0))[:max(L, 1)].rstrip("+") or "0"
                elif column == "size":
                    size = ("1" + "*1" * (L // 2))[:max(L, 1)].rstrip("*") or "1"
                elif column == "type":
                    tn = name("T", max(L, 2), camel=True)
                    if not tn[-1].isalpha():
                        tn = tn[:-1] + "b"
                    types = "struct %s:\n  0 [+1]  UInt  v\n" % tn
                    typ = tn
                elif column == "name":
                    nm = name("n", max(L, 2))
                elif column == "abbrev":
                    nm, abbr = "longname%d" % i, " (%s)" % name("a", max(L, 2))
                elif column == "attr":
                    attr = "  [requires: this < %s]" % ("1" + "0" * max(L - 1, 0))[:max(L, 1)]
                elif column == "doc":
                    doc = "  -- " + "d" * L
            rows.append("  %s [+%s]  %s  %s%s%s%s" % (start, size, typ, nm, abbr, attr, doc))
        text = types + "struct Foo:\n" + "\n".join(rows) + "\n"
        if column in ("enum_name", "enum_value"):
            vals = []
            for i in range(3):
                en, ev = "V%d" % i + "A", str(i)
                if i == where:
                    if column == "enum_name":
                        en = ("W" + "AB" * L)[:max(L, 2)]
                    else:
                        ev = ("1" + "0" * L)[:max(min(L, 18), 1)] if L <= 18 else "+".join(["1"] * ((L + 1) // 2))
                vals.append("  %s = %s" % (en, ev))
            text = "enum Ee:\n" + "\n".join(vals) + "\n"
        out.append(text)
        out.append(text.replace("\n  ", "\n  # c\n  ", 1) + "  # trailing comment\n" if column != "doc" else text)
    return out


def dress(text, how):
    lines = text.rstrip("\n").split("\n")
    out = []
    if how == "plain":
        return text
    if how == "comments":
        out.append("# leading comment")
        out.append("#")
        for i, l in enumerate(lines):
            out.append(l + ("  # c%d" % i if l.strip() and not l.strip().startswith("[") else ""))
            if l.strip().endswith(":"):
                pass
        out.append("# trailing comment")
        return "\n".join(out) + "\n"
    if how == "body_attrs":
        # attribute and documentation lines at the head of every body (struct, bits, anonymous bits, enum)
        for l in lines:
            out.append(l)
            st = l.strip()
            ind = l[:len(l) - len(l.lstrip())]
            if st.endswith("bits:") or st.startswith("struct ") or st.startswith("bits "):
                if not st.endswith("bits:") or st.startswith("bits "):
                    out.append(ind + "  -- body documentation")
                out.append(ind + '  [$default byte_order: "LittleEndian"]')
            elif st.startswith("enum "):
                out.append(ind + "  -- enum documentation")
                out.append(ind + "  -- second line")
                out.append(ind + "  [maximum_bits: 32]")
                out.append(ind + "  [is_signed: false]")
        return "\n".join(out) + "\n"
    if how == "inline_docs":
        # inline documentation (with trailing blanks) and trailing comments alternate on the rows of every table
        k = 0
        for l in lines:
            st = l.strip()
            row = (st and st[0].isdigit() and "[+" in st and "bits:" not in st) or (
                st and st[0].isupper() and " = " in st and not st.startswith("[")) or st.startswith("let ")
            if row and not st.endswith(":"):
                k += 1
                if st.startswith("let "):
                    l = l + "   # why      "
                elif k % 2:
                    l = l + " -- inline doc" + " " * (3 + k % 5)
                else:
                    l = l + "  #  c" + " " * (k % 4)
            out.append(l)
        return "\n".join(out) + "\n"
    if how == "dup_comments":
        for l in lines:
            out.append(l)
            ind = l[:len(l) - len(l.lstrip())]
            if l.strip() and not l.strip().startswith("["):
                out += [ind + "#", ind + "#", ind + "# TODO", ind + "# TODO", ind + "# TODO"]
        return "\n".join(out) + "\n"
    if how == "docs":
        for l in lines:
            out.append(l)
            s = l.strip()
            ind = l[:len(l) - len(l.lstrip())]
            if s.startswith("struct ") or s.startswith("enum ") or s.startswith("bits "):
                out.append(ind + "  -- doc for type")
                out.append(ind + "  --")
                out.append(ind + "  -- more")
            elif s and s[0].isdigit() and "bits:" not in s and "[+" in s:
                out.append(ind + "  -- doc for field")
        return "-- module doc\n" + "\n".join(out) + "\n"
    if how == "blank":
        for l in lines:
            out.append(l)
            out.append("")
            out.append("   ")
        return "\n\n" + "\n".join(out) + "\n\n\n"
    if how == "spaces":
        import re
        for l in lines:
            ind = l[:len(l) - len(l.lstrip())]
            body = re.sub(r"  +", " ", l.lstrip())
            body = body.replace(" ", "     ").replace("[+", "[ +").replace("]", " ]")
            out.append(ind + body)
        return "\n".join(out) + "\n"
    if how == "trailing":
        return "\n".join(l + "   \t " if l.strip() else l for l in lines) + "\n"
    if how == "tabs_in_comment":
        return "\n".join(l + "\t#\tcomment\twith\ttabs  " if l.strip() and not l.strip().startswith("[") else l for l in lines) + "\n"
    if how == "attr_lines":
        for l in lines:
            out.append(l)
            s = l.strip()
            ind = l[:len(l) - len(l.lstrip())]
            if s and s[0].isdigit() and "bits:" not in s and "[+" in s:
                out.append(ind + "  [text_output: \"Emit\"]")
        return "\n".join(out) + "\n"
    raise ValueError(how)


def check_case(case):
    k = case["kind"]
    viol, nt = [], []
    n = 0
    if k == "text":
        v, ch = check_text(case["text"], case["indents"], "replay")
        return {"viol": [v] if v else [], "n": 1}
    if k == "expr":
        if "accepted" not in _S:
            setup("quick")
        for seq in _S["accepted"][case["lo"]:case["hi"]]:
            for joiner in (" ", "  "):
                ex = joiner.join(seq)
                texts = ["struct Foo:\n  0 [+1]  UInt  x\n  let v = %s\n" % ex,
                         "struct Foo:\n  %s [+1]  UInt  y\n" % ex,
                         "struct Foo:\n  [requires: %s]\n  0 [+1]  UInt  x\n" % ex]
                for ti, t in enumerate(texts):
                    if joiner == "  " and ti > 0:
                        continue
                    n += 1
                    v, ch = check_text(t, (2,) if ti else (1, 3), ex)
                    if v:
                        v["detail"] = {"text": t}
                        v["subcase"] = {"kind": "text", "text": t, "indents": [1, 2, 3]}
                        viol.append(v)
                    if ch:
                        nt.append(ex + "/%d" % ti)
    elif k == "prog":
        prog = explore.replay(embgen.program, case["vector"])
        base = prog.files()["m.emb"]
        for how in DRESSINGS:
            t = dress(base, how)
            n += 1
            v, ch = check_text(t, range(1, 9), "%s/%s" % (json.dumps(case["vector"]), how))
            if v:
                v["detail"] = {"text": t}
                v["subcase"] = {"kind": "text", "text": t, "indents": list(range(1, 9))}
                viol.append(v)
            if ch:
                nt.append("%s/%s" % (json.dumps(case["vector"]), how))
    elif k == "nest":
        t = nested(case["depth"])
        n += 1
        v, ch = check_text(t, range(1, 9), "nested/%d" % case["depth"])
        if v:
            v["detail"] = {"text": t}
            v["subcase"] = {"kind": "text", "text": t, "indents": list(range(1, 9))}
            viol.append(v)
        nt.append("nested/%d" % case["depth"])
    elif k == "wide":
        for L in (1, 2, 31, 32, 33, 63, 64, 65, 66, 67, 79, 80, 81, 100, 127, 128, 129, 200):
            for t in wide_tables(case["column"], L):
                n += 1
                v, ch = check_text(t, (1, 2, 8), "wide/%s/%d" % (case["column"], L))
                if v:
                    v["detail"] = {"text": t}
                    v["subcase"] = {"kind": "text", "text": t, "indents": [1, 2, 8]}
                    viol.append(v)
                nt.append("wide/%s/%d" % (case["column"], L))
    elif k == "selfcheck":
        # the built-in self-check must tell apart texts whose token streams differ, including in length
        e = common.emb()
        base = "-- doc\nstruct Foo:\n  0 [+1]  UInt  x\n  1 [+1]  UInt  y  # c\n"
        toks = base.split("\n")
        variants = [("", False), (base, True), (base + "\n\n", True), (base.replace("  ", "      "), True)]
        for i in range(len(toks)):
            variants.append(("\n".join(toks[:i]) + "\n", i >= len(toks) - 1))
            variants.append((base + "\n".join(toks[:i]) + "\n", i == 0))
        variants.append((base.replace("UInt  y", "UInt  z"), False))
        variants.append((base.replace("[+1]  UInt  y", "[+2]  UInt  y"), False))
        for other, same in variants:
            for a, b in ((other, base), (base, other)):
                n += 1
                try:
                    r = e.format_emb.sanity_check_format_result(a, b)
                except Exception as ex:  # noqa
                    viol.append({"key": "self-check-" + common.exc_key(ex), "msg": "sanity_check_format_result(%r, %r): %r" % (a[:40], b[:40], ex)})
                    continue
                if bool(r) == same:
                    viol.append({"key": "self-check-wrong", "msg": "sanity_check_format_result(%r..., %r...) -> %r, texts %s" % (
                        a[:50], b[:50], r, "are equivalent" if same else "differ")})
                nt.append("selfcheck-%d" % n)
    elif k == "corpus":
        t = open(os.path.join(common.REPO, case["file"]), encoding="utf-8").read()
        n += 1
        v, ch = check_text(t, range(1, 9), case["file"])
        if v:
            v["detail"] = {"file": case["file"]}
            viol.append(v)
        if ch:
            nt.append(case["file"])
    elif k == "cli":
        import subprocess
        import sys
        import tempfile
        import shutil
        texts = ["struct Foo:\n  0 [+1]  UInt  x\n  let v = x - -1\n", dress("struct Foo:\n  0 [+1]  UInt  x\n  let v = x+1\n", "comments")]
        for t in texts:
            for ind in (2, 5):
                d = tempfile.mkdtemp(prefix="embverif-")
                try:
                    with open(os.path.join(d, "m.emb"), "w") as f:
                        f.write(t)
                    env = dict(os.environ, PYTHONPATH=common.REPO)
                    env.pop("PYTHONDONTWRITEBYTECODE", None)
                    r = subprocess.run([sys.executable, os.path.join(common.REPO, "emboss-format"), "--no-edit-in-place", "--indent", str(ind),
                                        "--color-output", "never", "m.emb"], capture_output=True, text=True, cwd=d, env=env, timeout=300)
                    n += 1
                    want, _w = fmt(t, ind)
                    if r.returncode != 0 or r.stdout != want or r.stderr.strip():
                        viol.append({"key": "cli-differs-from-api", "msg": "indent=%d rc=%d stderr=%s" % (ind, r.returncode, r.stderr[-200:]),
                                     "detail": {"text": t}})
                    nt.append("cli/%d/%d" % (len(t), ind))
                finally:
                    shutil.rmtree(d, ignore_errors=True)
    seen, keep = {}, []
    for v in viol:
        seen[v["key"]] = seen.get(v["key"], 0) + 1
        if seen[v["key"]] <= 3:
            keep.append(v)
    return {"viol": keep, "n": n, "nt": nt}


def sample_of(case):
    if case["kind"] == "expr":
        if "accepted" not in _S:
            setup("quick")
        seq = _S["accepted"][case["hi"] - 1]
        return {"kind": "expr", "tokens": seq, "text": "struct Foo:\n  0 [+1]  UInt  x\n  let v = %s\n" % " ".join(seq)}
    if case["kind"] == "prog":
        prog = explore.replay(embgen.program, case["vector"])
        return {"kind": "prog", "choice_vector": case["vector"], "dressed": dress(prog.files()["m.emb"], "comments")}
    return case
