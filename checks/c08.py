"""C08 -- the LR(1) generator builds a parser for exactly the grammar's language.

(a) every grammar of the family G(k) (start S, nonterminals {S, A}, terminals
    {a, b}, <= k productions with |rhs| <= 2) + a zoo of textbook grammars, each
    with ALL strings of length <= L, against truncated language fixpoints,
    derivation counts, viable-prefix sets and a plain canonical LR(1) reference;
(b) the Emboss grammar (both start symbols): for every LR state a shortest
    access string x every terminal and end-of-input, against an Earley
    recogniser."""
import itertools

from vk import common, cfg, earley

PROPERTY = "C08"
LEVEL = "model_checking"
RULE = ("(a) all grammars with <=k productions over {S,A}x{a,b}, |rhs|<=2, plus a textbook zoo, each x all strings "
        "up to length L, oracle = language/derivation-count/viable-prefix fixpoints + plain LR(1) construction; "
        "(b) Emboss grammar, both start symbols: every automaton state (shortest access string) x every terminal "
        "and end-of-input, oracle = Earley recogniser with viable-prefix sets. Non-trivial = grammar that is "
        "conflict-free with a non-empty language, or Emboss state; distinct by production set / state id.")
ASSUMPTIONS = ["vk/cfg.py fixpoints and vk/earley.py are the reference (cross-checked against each other every run)",
               "viable-prefix clause is compared only for reduced grammars (canonical LR(1) has the correct-prefix "
               "property only there)"]
TIMEOUT = 3000

SYMS = ["S", "A", "a", "b"]
RHS = [()] + [(x,) for x in SYMS] + [(x, y) for x in SYMS for y in SYMS]
CAND = [(l, r) for l in ("S", "A") for r in RHS]        # 42 candidate productions
RHS3 = RHS + [(x, y, z) for x in SYMS for y in SYMS for z in SYMS]
CAND3 = [(l, r) for l in ("S", "A") for r in RHS3]

ZOO = {
    "lr1-not-lalr": ("S", [("S", ("a", "E", "c")), ("S", ("a", "F", "d")), ("S", ("b", "F", "c")),
                           ("S", ("b", "E", "d")), ("E", ("e",)), ("F", ("e",))]),
    "lalr-not-slr": ("S", [("S", ("L", "=", "R")), ("S", ("R",)), ("L", ("*", "R")), ("L", ("i",)), ("R", ("L",))]),
    "dangling-else": ("S", [("S", ("i", "S")), ("S", ("i", "S", "e", "S")), ("S", ("x",))]),
    "e-plus-e": ("E", [("E", ("E", "+", "E")), ("E", ("n",))]),
    "expr-unambiguous": ("E", [("E", ("E", "+", "T")), ("E", ("T",)), ("T", ("T", "*", "F")), ("T", ("F",)),
                               ("F", ("(", "E", ")")), ("F", ("n",))]),
    "epsilon-heavy": ("S", [("S", ("A", "B", "C")), ("A", ()), ("A", ("a",)), ("B", ()), ("B", ("b",)),
                            ("C", ()), ("C", ("c",))]),
    "cyclic-unit": ("S", [("S", ("A",)), ("A", ("S",)), ("A", ("a",))]),
    "self-unit": ("S", [("S", ("S",)), ("S", ("a",))]),
    "unproductive": ("S", [("S", ("a", "A")), ("S", ("b",)), ("A", ("A", "b"))]),
    "unreachable": ("S", [("S", ("a",)), ("A", ("b", "A")), ("A", ())]),
    "palindrome": ("S", [("S", ("a", "S", "a")), ("S", ("b", "S", "b")), ("S", ())]),
    "an-bn": ("S", [("S", ("a", "S", "b")), ("S", ())]),
    "right-rec-list": ("S", [("S", ("a", "S")), ("S", ())]),
    "left-rec-list": ("S", [("S", ("S", "a")), ("S", ())]),
    "star-plus-opt": ("S", [("S", ("X*", "Y+", "Z?")), ("X*", ()), ("X*", ("x", "X*")), ("Y+", ("y", "Y*")),
                            ("Y*", ()), ("Y*", ("y", "Y*")), ("Z?", ()), ("Z?", ("z",))]),
    "lr2": ("S", [("S", ("A", "a", "a")), ("S", ("B", "a", "b")), ("A", ("c",)), ("B", ("c",))]),
    "nullable-start": ("S", [("S", ()), ]),
    "two-nullable-ambiguous": ("S", [("S", ("A", "A")), ("A", ()), ("A", ("a",))]),
    "inherent-amb-small": ("S", [("S", ("a", "S")), ("S", ("S", "a")), ("S", ("a",))]),
    "if-then": ("S", [("S", ("M",)), ("S", ("U",)), ("M", ("i", "M", "e", "M")), ("M", ("x",)),
                      ("U", ("i", "S")), ("U", ("i", "M", "e", "U"))]),
    "reduce-reduce": ("S", [("S", ("A",)), ("S", ("B",)), ("A", ("a",)), ("B", ("a",))]),
    "lookahead-distinguishes": ("S", [("S", ("A", "a")), ("S", ("B", "b")), ("A", ("c",)), ("B", ("c",))]),
    "nested-opt": ("S", [("S", ("a", "O", "b")), ("O", ()), ("O", ("S",))]),
    "start-is-terminal": ("t", []),
    "long-rhs": ("S", [("S", ("a", "b", "a", "b", "a")), ("S", ("a", "b", "a", "b", "b"))]),
    "left-and-right": ("S", [("S", ("S", "a", "S")), ("S", ("b",))]),
    "indirect-left": ("S", [("S", ("A", "a")), ("S", ("b",)), ("A", ("S", "c")), ("A", ())]),
    "empty-alternatives": ("S", [("S", ("A", "S")), ("S", ("b",)), ("A", ()), ]),
}

# additions: indirect nullability / FIRST through chains (three or more nonterminals)
ZOO.update({
    "indirect-nullable-tail": ("S", [("S", ("X", "Y", "z")), ("X", ("x",)), ("Y", ("W",)), ("W", ("w",)), ("W", ())]),
    "indirect-nullable-pair": ("S", [("S", ("A", "B")), ("B", ("A",)), ("A", ()), ("A", ("a",))]),
    "nullable-chain-3": ("S", [("S", ("A", "B", "C", "d")), ("A", ("B",)), ("B", ("C",)), ("C", ()), ("C", ("c",))]),
    "first-through-two": ("S", [("S", ("A", "B", "c")), ("S", ("A", "B", "d")), ("A", ("a",)), ("A", ()), ("B", ("A",))]),
})

def _templated():
    """Grammars S -> ctx A end | ...; A -> B TAIL; with TAIL nullable directly / through one or two unit steps, reached with one or two
    different lookaheads -- the shapes in which lookahead must be threaded through a (possibly indirectly) vanishing tail."""
    out = {}
    tails = {
        "none": [("C", ("c",))],
        "direct": [("C", ("c",)), ("C", ())],
        "indirect1": [("C", ("D",)), ("D", ("d",)), ("D", ())],
        "indirect2": [("C", ("D",)), ("D", ("E",)), ("E", ("e",)), ("E", ())],
        "indirect-mixed": [("C", ("D", "E")), ("D", ()), ("E", ("F",)), ("F", ()), ("F", ("f",))],
    }
    ctxs = {
        "one": [("S", ("x", "A", "y"))],
        "two": [("S", ("x", "A", "y")), ("S", ("z", "A", "w"))],
        "two-same-end": [("S", ("x", "A", "y")), ("S", ("z", "A", "y"))],
        "nested": [("S", ("x", "A", "y")), ("S", ("z", "S", "w"))],
    }
    for tn, tp in tails.items():
        for cn, cp in ctxs.items():
            for a_form, ap in (("BC", [("A", ("B", "C"))]), ("CB", [("A", ("C", "B"))]), ("BCC", [("A", ("B", "C", "C"))])):
                out["tmpl:%s/%s/%s" % (cn, tn, a_form)] = ("S", cp + ap + [("B", ("b",))] + tp)
    return out


ZOO.update(_templated())
# cyclic start symbols under several spellings: the order in which the accept item and a reduce item are met
# depends on set iteration order, i.e. on the hashes of the symbol names
for _i, (_s, _a) in enumerate((("S", "A"), ("Start", "Aux"), ("q", "r"), ("zz", "yy"), ("N0", "N1"), ("expr", "term"))):
    ZOO["cyclic-self/%d" % _i] = (_s, [(_s, (_s,)), (_s, ("t",))])
    ZOO["cyclic-pair/%d" % _i] = (_s, [(_s, (_a,)), (_a, (_s,)), (_a, ("t",))])
    ZOO["cyclic-nullable/%d" % _i] = (_s, [(_s, (_s, _a)), (_s, ("t",)), (_a, ())])

# second family: three nonterminals, one terminal (strings are a^n, so it is cheap)
SYMS_B = ["S", "A", "B", "a"]
RHS_B = [()] + [(x,) for x in SYMS_B] + [(x, y) for x in SYMS_B for y in SYMS_B]
CAND_B = [(l, r) for l in ("S", "A", "B") for r in RHS_B]   # 63 candidates

_G = {}


def bounds(tier):
    if tier == "quick":
        return {"family_k": 3, "string_len": 6, "familyB_k": 3, "zoo": len(ZOO), "zoo_string_len": 7,
                "emboss_states": "all"}
    return {"family_k": 4, "string_len": 6, "rhs3_k": 2, "familyB_k": 4, "zoo": len(ZOO), "zoo_string_len": 8,
            "emboss_states": "all"}


def _shortest_yields(prods, nts):
    best = {}
    changed = True
    while changed:
        changed = False
        for l, r in prods:
            if all(s not in nts or s in best for s in r):
                y = []
                for s in r:
                    y.extend(best[s] if s in nts else [s])
                if l not in best or len(y) < len(best[l]):
                    best[l] = y
                    changed = True
    return best


def setup(tier):
    e = common.emb()
    prods = sorted(e.module_ir.PRODUCTIONS)
    plain = [(p.lhs, tuple(p.rhs)) for p in prods]
    nts = {l for l, _ in plain}
    _G["plain"] = plain
    _G["yields"] = _shortest_yields(plain, nts)
    for which, start in (("module", e.module_ir.START_SYMBOL), ("expression", e.module_ir.EXPRESSION_START_SYMBOL)):
        parser = e.lr1.Grammar(start, list(prods)).parser()
        _G["parser_" + which] = parser
        _G["start_" + which] = start
        # BFS access paths
        parent = {0: None}
        order = [0]
        i = 0
        while i < len(order):
            s = order[i]
            i += 1
            edges = []
            for t, act in parser.action.get(s, {}).items():
                if isinstance(act, e.lr1.Shift):
                    edges.append((str(t), t, act.state))
            for n, tgt in parser.goto.get(s, {}).items():
                edges.append((str(n), n, tgt))
            for _k, sym, tgt in sorted(edges):
                if tgt not in parent:
                    parent[tgt] = (s, sym)
                    order.append(tgt)
        _G["parent_" + which] = parent
        _G["order_" + which] = order
        _G["nstates_" + which] = len(parser.item_sets)


def gen_cases(tier):
    b = bounds(tier)
    import math
    for size in range(1, b["family_k"] + 1):
        total = math.comb(len(CAND), size)
        chunk = 400
        for lo in range(0, total, chunk):
            yield {"kind": "family", "size": size, "lo": lo, "hi": min(total, lo + chunk), "L": b["string_len"]}
    if "rhs3_k" in b:
        for size in range(1, b["rhs3_k"] + 1):
            total = math.comb(len(CAND3), size)
            for lo in range(0, total, 400):
                yield {"kind": "family3", "size": size, "lo": lo, "hi": min(total, lo + 400), "L": b["string_len"]}
    for size in range(1, b["familyB_k"] + 1):
        total = math.comb(len(CAND_B), size)
        for lo in range(0, total, 1000):
            yield {"kind": "familyB", "size": size, "lo": lo, "hi": min(total, lo + 1000), "L": 5}
    for name in sorted(ZOO):
        yield {"kind": "zoo", "name": name, "L": b["zoo_string_len"] if not name.startswith("tmpl:") else 6}
    for which in ("module", "expression"):
        n = _G["nstates_" + which]
        for lo in range(0, n, 100):
            yield {"kind": "emboss", "which": which, "lo": lo, "hi": min(n, lo + 100)}


def _tokens(e, syms):
    T = e.parser_types.Token
    SL = e.parser_types.SourceLocation
    return [T(s, s, SL((1, i + 1), (1, i + 2))) for i, s in enumerate(syms)]


def _tree_ok(e, tree, prodset, nts):
    """Returns the frontier (list of symbols) if tree is a derivation, else None."""
    out = []

    def rec(node):
        if isinstance(node, e.lr1.Reduction):
            p = node.production
            if (p.lhs, tuple(p.rhs)) not in prodset or node.symbol != p.lhs:
                return False
            if len(node.children) != len(p.rhs):
                return False
            for ch, want in zip(node.children, p.rhs):
                sym = ch.symbol
                if sym != want:
                    return False
                if not rec(ch):
                    return False
            return True
        if node.symbol in nts:
            return False
        out.append(node)
        return True

    return out if rec(tree) else None


def check_grammar(start, prods, L, label):
    """Returns (violations, info)."""
    e = common.emb()
    P = e.parser_types.Production
    viol = []
    info = {"states": 0, "parses": 0, "nt": False}
    case = {"start": start, "productions": [[l, list(r)] for l, r in prods], "label": label}
    try:
        g = e.lr1.Grammar(start, [P(l, tuple(r)) for l, r in prods])
        parser = g.parser()
    except Exception as ex:  # noqa
        key = "generator-exception:" + type(ex).__name__
        if isinstance(ex, AssertionError):
            key = "generator-exception:accept-reduce"
        return [{"key": key, "msg": "%s: Grammar.parser() raised %r" % (label, ex), "detail": case}], info
    nref, lr1_ok = cfg.lr1_reference(prods, start)
    info["states"] = len(parser.item_sets)
    info["ref_states_equal"] = int(nref == len(parser.item_sets))
    conflict_free = not parser.conflicts
    if conflict_free and not lr1_ok:
        viol.append({"key": "conflicts-missed", "msg": "%s: no conflicts reported but grammar is not LR(1)" % label,
                     "detail": case})
    if (not conflict_free) and lr1_ok:
        viol.append({"key": "spurious-conflicts", "msg": "%s: conflicts reported on an LR(1) grammar" % label,
                     "detail": case})
    if not conflict_free:
        return viol, info
    c = cfg.Cfg(prods, start)
    cnt = c.counts(L + 1)
    lang = cnt[start]
    amb = [w for w, k in lang.items() if k >= 2]
    if amb:
        viol.append({"key": "ambiguous-accepted", "msg": "%s: conflict-free but %r has two derivations" % (label, min(amb, key=len)),
                     "detail": case})
        return viol, info
    pref = c.prefixes(cnt, L + 1)
    prodset = set((l, tuple(r)) for l, r in prods) | {("S'", (start,))}
    terms = c.terminals
    info["nt"] = bool(lang)
    for n in range(0, L + 1):
        for w in itertools.product(terms, repeat=n):
            toks = _tokens(e, w)
            try:
                res = parser.parse(toks)
            except Exception as ex:  # noqa
                viol.append({"key": "parse-exception:" + type(ex).__name__, "msg": "%s on %r: %r" % (label, w, ex), "detail": case})
                return viol, info
            info["parses"] += 1
            member = w in lang
            if (res.error is None) != member:
                viol.append({"key": "accepts-wrong-language", "msg": "%s: %r member=%s accepted=%s" % (label, w, member, res.error is None),
                             "detail": dict(case, string=list(w))})
                return viol, info
            if member:
                fr = _tree_ok(e, res.parse_tree, prodset, c.nts)
                if fr is None or fr != toks or res.parse_tree.symbol != start:
                    viol.append({"key": "tree-not-derivation", "msg": "%s: %r" % (label, w), "detail": dict(case, string=list(w))})
                    return viol, info
            elif c.reduced:
                k = max([i for i in range(len(w) + 1) if w[:i] in pref] or [0])
                exp = {t for t in terms if w[:k] + (t,) in pref}
                if w[:k] in lang:
                    exp.add("$")
                err = res.error
                if err.index != k or set(err.expected_tokens) != exp:
                    viol.append({"key": "error-position-or-expected", "msg": "%s: %r error index %d expected %d; expected-set %s want %s" % (
                        label, w, err.index, k, sorted(err.expected_tokens), sorted(exp)), "detail": dict(case, string=list(w))})
                    return viol, info
                tok = err.token
                if (k < len(w) and tok != toks[k]) or (k == len(w) and tok.symbol != "$"):
                    viol.append({"key": "error-token", "msg": "%s: %r" % (label, w), "detail": dict(case, string=list(w))})
                    return viol, info
    # oracle self cross-check: Earley vs fixpoints on short strings
    if c.reduced and start in c.nts:
        ear = earley.Earley(prods, start)
        for n in range(0, min(L, 4) + 1):
            for w in itertools.product(terms, repeat=n):
                acc, idx, exp = ear.recognise(w)
                if acc != (w in lang):
                    raise AssertionError("oracle self-test: Earley and fixpoint disagree on %r for %r" % (w, prods))
    return viol, info


class _RecRow(dict):
    __slots__ = ("st", "log")

    def __getitem__(self, k):
        self.log.add((self.st, k))
        return dict.__getitem__(self, k)


def check_emboss(case):
    e = common.emb()
    which = case["which"]
    parser = _G["parser_" + which]
    start = _G["start_" + which]
    viol = []
    if parser.conflicts:
        return {"viol": [{"key": "emboss-grammar-conflicts", "msg": which}], "n": 1}
    ear = _G.get("earley_" + which)
    if ear is None:
        ear = earley.Earley(_G["plain"], start)
        _G["earley_" + which] = ear
        if not ear.reduced:
            # unreachable-from-expression nonterminals are fine; unproductive reachable ones are not expected
            raise AssertionError("Emboss grammar not reduced from " + start)
    parent = _G["parent_" + which]
    yields = _G["yields"]
    nts = ear.nonterminals
    terms = sorted(t for t in parser.terminals if t != "$")
    log = set()
    # recording view of the action table (outside the code under test)
    rec = {}
    for st, row in parser.action.items():
        r = _RecRow(row)
        r.st = st
        r.log = log
        rec[st] = r
    import copy
    p2 = copy.copy(parser)
    p2.action = rec
    charts = {(): ear.begin()}

    def chart_for(seq):
        seq = tuple(seq)
        if seq in charts:
            return charts[seq]
        prev = chart_for(seq[:-1])
        ch = None if prev is None else ear.step(prev, seq[-1])
        charts[seq] = ch
        return ch

    n = 0
    prodset = None
    for st in range(case["lo"], case["hi"]):
        if st not in parent:
            viol.append({"key": "unreachable-state", "msg": "%s state %d" % (which, st)})
            continue
        path = []
        s = st
        while parent[s] is not None:
            s, sym = parent[s]
            path.append(sym)
        path.reverse()
        alpha = []
        for sym in path:
            alpha.extend(yields[sym] if sym in nts else [sym])
        ch = chart_for(alpha)
        if ch is None:
            viol.append({"key": "access-string-not-viable", "msg": "%s state %d: %s" % (which, st, " ".join(alpha))})
            continue
        V = ear.viable_next(ch)
        sent = ear.is_sentence(ch)
        toks = _tokens(e, alpha)
        for t in [None] + terms:
            if t is None:
                inp = toks
                if sent:
                    want = ("accept",)
                else:
                    want = ("error", len(alpha), frozenset(V))
            else:
                inp = toks + _tokens(e, alpha + [t])[-1:]
                if t not in V:
                    want = ("error", len(alpha), frozenset(V | ({"$"} if sent else set())))
                else:
                    ch2 = chart_for(tuple(alpha) + (t,))
                    if ear.is_sentence(ch2):
                        want = ("accept",)
                    else:
                        want = ("error", len(alpha) + 1, frozenset(ear.viable_next(ch2)))
            res = p2.parse(inp)
            n += 1
            if res.error is None:
                got = ("accept",)
            else:
                got = ("error", res.error.index, frozenset(res.error.expected_tokens))
            if got != want:
                viol.append({"key": "emboss-parser-disagrees-with-earley",
                             "msg": "%s state %d input %s | %s: got %s want %s" % (
                                 which, st, " ".join(alpha), t, got[:2], want[:2]),
                             "detail": {"which": which, "state": st, "tokens": alpha + ([t] if t else [])}})
                break
            if got == ("accept",):
                if prodset is None:
                    prodset = set(_G["plain"]) | {("S'", (start,))}
                fr = _tree_ok(e, res.parse_tree, prodset, nts)
                if fr is None or fr != inp:
                    viol.append({"key": "emboss-tree-not-derivation", "msg": "%s state %d" % (which, st)})
        if len(viol) > 5:
            break
    return {"viol": viol, "n": n, "traces": n, "states": case["hi"] - case["lo"],
            "nt": ["%s:%d" % (which, s) for s in range(case["lo"], case["hi"])],
            "exercised": sorted("%s|%d|%s" % (which, a, b) for a, b in log)}


def check_case(case):
    if case["kind"] == "emboss":
        return check_emboss(case)
    viol, nt = [], []
    stats = {"grammars": 0, "conflict_free": 0, "ref_states_equal": 0}
    states = parses = 0
    if case["kind"] == "zoo":
        start, prods = ZOO[case["name"]]
        todo = [(start, prods, "zoo:" + case["name"])]
    elif case["kind"] == "single":
        todo = [(case["start"], [(l, tuple(r)) for l, r in case["productions"]], case.get("label", "single"))]
    else:
        cand = {"family": CAND, "family3": CAND3, "familyB": CAND_B}[case["kind"]]
        combos = itertools.islice(itertools.combinations(range(len(cand)), case["size"]), case["lo"], case["hi"])
        todo = [("S", [cand[i] for i in c], "%s:%s" % (case["kind"], ",".join(map(str, c)))) for c in combos]
    for start, prods, label in todo:
        try:
            with common.watchdog(60):
                v, info = check_grammar(start, prods, case.get("L", 6), label)
        except common.CaseTimeout:
            v, info = [{"key": "parser-does-not-terminate", "msg": "%s: generation or parsing exceeded 60 s of CPU" % label,
                        "detail": {"start": start, "productions": [[l, list(r)] for l, r in prods]}}], {"states": 0, "parses": 0, "nt": False}
        for x in v:
            x["subcase"] = {"kind": "single", "start": start, "productions": [[l, list(r)] for l, r in prods],
                            "label": label, "L": case.get("L", 6)}
        viol.extend(v)
        stats["grammars"] += 1
        states += info["states"]
        parses += info["parses"]
        stats["ref_states_equal"] += info.get("ref_states_equal", 0)
        if info["parses"]:
            stats["conflict_free"] += 1
        if info["nt"]:
            nt.append(label)
    return {"viol": viol, "n": parses + len(todo), "traces": parses, "states": states, "nt": nt, "stats": stats}


def finish(tier, results, cases):
    e = common.emb()
    exercised = set()
    for r in results:
        exercised.update(r.get("exercised", ()))
        r.pop("exercised", None)
    total = 0
    for which in ("module", "expression"):
        parser = _G["parser_" + which]
        for st, row in parser.action.items():
            for t, act in row.items():
                if not isinstance(act, e.lr1.Error):
                    total += 1
    return {"coverage": {"emboss_action_entries_non_error": total,
                         "emboss_action_entries_exercised": len(exercised),
                         "transitions": len(exercised) + sum(r.get("traces", 0) for r in results if "exercised" not in r) * 0}}


def sample_of(case):
    if case["kind"] in ("family", "family3", "familyB"):
        cand = {"family": CAND, "family3": CAND3, "familyB": CAND_B}[case["kind"]]
        c = next(itertools.islice(itertools.combinations(range(len(cand)), case["size"]), case["hi"] - 1, case["hi"]))
        return {"kind": case["kind"], "productions": ["%s -> %s" % (cand[i][0], " ".join(cand[i][1]) or "<empty>") for i in c],
                "strings": "all over the terminals up to length %d" % case["L"]}
    if case["kind"] == "zoo":
        return {"kind": "zoo", "name": case["name"], "productions": ["%s -> %s" % (l, " ".join(r)) for l, r in ZOO[case["name"]][1]]}
    return case
