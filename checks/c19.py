"""C19 -- enum names, values and C++ representation match the definition.
Deviation-bounded exhaustive enumeration of enums (1-3 enumerators over name/value/attribute
alphabets); accepted ones are packed into headers and every documented helper is checked in a
generated driver against values taken from the generator's AST."""
import json
import re

from vk import common, cppdrv, explore

PROPERTY = "C19"
LEVEL = "exploration"
RULE = ("every enum within 2 (quick) / 3 (thorough) deviations of 'enum E: AA = 0': 1-3 enumerators, names {AA,A_B,A__B,BB_1,ZZ_9}, "
        "values {0,1,-1,255,256,2^31-1,2^31,2^32,2^63-1,-2^63,2^63,2^64-1,duplicate of the previous,-2^63+1,2^63-2,2^64-2,-2^31,-2^31-1}, is_signed {unset,true,false}, "
        "maximum_bits {unset,1,8,9,32,33,63,64}, enum_case {unset,SHOUTY_CASE,kCamelCase,both} on the enum / as module $default / "
        "per value; filtered to those the compiler accepts. In the driver: underlying signedness and width, every spelling with "
        "its exact value, TryToGetEnumFromName (declared names accepted; other names, kCamel spellings, '', numbers, nullptr "
        "rejected), TryToGetNameFromEnum (first declared name; null for neighbours and type extremes), EnumIsKnown, operator<<. "
        "Non-trivial = accepted enum that is not the default; distinct by choice vector.")
ASSUMPTIONS = ["kCamelCase spelling = 'k' + capitalised underscore-separated words (from the documentation's example)",
               "acceptance itself is C14's subject; rejected enums are only counted"]
TIMEOUT = 2400

NAMES = ["AA", "A_B", "A__B", "BB_1", "ZZ_9"]
VALUES = [0, 1, -1, 255, 256, 2 ** 31 - 1, 2 ** 31, 2 ** 32, 2 ** 63 - 1, -2 ** 63, 2 ** 63, 2 ** 64 - 1, "dup",
          -2 ** 63 + 1, 2 ** 63 - 2, 2 ** 64 - 2, -2 ** 31, -2 ** 31 - 1]
SIGNED = [None, True, False]
MAXBITS = [None, 1, 8, 9, 32, 33, 63, 64]
CASES = [None, "SHOUTY_CASE", "kCamelCase", "SHOUTY_CASE, kCamelCase"]
PLACE = ["enum", "module", "value0"]


def gen_enum(ch):
    n = 1 + ch.choose(3, "n")
    names, values = [], []
    for i in range(n):
        order = NAMES[i:] + NAMES[:i]
        names.append(order[ch.choose(len(order), "name%d" % i)])
        dv = [i] + [v for v in VALUES if v != i]
        v = dv[ch.choose(len(dv), "value%d" % i)]
        if v == "dup":
            v = values[-1] if values else 0
        values.append(v)
    signed = SIGNED[ch.choose(3, "is_signed")]
    maxbits = MAXBITS[ch.choose(len(MAXBITS), "maximum_bits")]
    case = CASES[ch.choose(len(CASES), "enum_case")]
    place = PLACE[ch.choose(len(PLACE), "case_place")]
    return {"names": names, "values": values, "signed": signed, "maxbits": maxbits, "case": case, "place": place}


def k_camel(name):
    return "k" + "".join(w[:1].upper() + w[1:].lower() for w in name.split("_"))


def enum_text(e, ename="Ee"):
    lines = ["enum %s:" % ename]
    if e["signed"] is not None:
        lines.append("  [is_signed: %s]" % ("true" if e["signed"] else "false"))
    if e["maxbits"] is not None:
        lines.append("  [maximum_bits: %d]" % e["maxbits"])
    if e["case"] and e["place"] == "enum":
        lines.append('  [(cpp) $default enum_case: "%s"]' % e["case"])
    for i, (n, v) in enumerate(zip(e["names"], e["values"])):
        lines.append("  %s = %d" % (n, v))
        if e["case"] and e["place"] == "value0" and i == 0:
            lines.append('    [(cpp) enum_case: "%s"]' % e["case"])
    return lines


def module_text(enums, module_case=None):
    lines = []
    if module_case:
        lines.append('[(cpp) $default enum_case: "%s"]' % module_case)
    for i, e in enumerate(enums):
        lines.extend(enum_text(e, "Ee%d" % i))
    for i, e in enumerate(enums):
        w = e["maxbits"] or 64
        nbytes = (w + 7) // 8
        lines.append("bits Bb%d:" % i)
        lines.append("  0 [+%d]  Ee%d  f" % (w, i))
        if nbytes * 8 > w:
            lines.append("  %d [+%d]  UInt  pad" % (w, nbytes * 8 - w))
        lines.append("struct Ss%d:" % i)
        lines.append("  [$default byte_order: \"LittleEndian\"]")
        lines.append("  0 [+%d]  Bb%d  b" % (nbytes, i))
        if w % 8 == 0:
            lines.append("  %d [+%d]  Ee%d  g" % (nbytes, nbytes, i))
    return "\n".join(lines) + "\n"


def spellings(e, i):
    """C++ spellings of enumerator i."""
    case = e["case"]
    if case and e["place"] == "value0" and i != 0:
        case = None
    if not case:
        return [e["names"][i]]
    out = []
    for c in case.split(","):
        c = c.strip()
        out.append(e["names"][i] if c == "SHOUTY_CASE" else k_camel(e["names"][i]))
    return out


def lit(v, signed):
    if v == -2 ** 63:
        return "(-9223372036854775807LL - 1)"
    if v >= 2 ** 63:
        return "%dULL" % v
    return "%dLL" % v


def bounds(tier):
    return {"deviations": 2 if tier == "quick" else 3, "pack": 25}


def gen_cases(tier):
    bound = 2 if tier == "quick" else 3
    vecs = []
    for forced, trace, e in explore.enumerate_vectors(gen_enum, bound):
        if len(set(e["names"])) != len(e["names"]):
            continue
        vecs.append(explore.vector_of(forced, trace))
    for lo in range(0, len(vecs), 25):
        yield {"vectors": vecs[lo:lo + 25]}


def driver_for(enums, ns="::emboss_generated_code"):
    L = ['#include <cstdio>', '#include <cstring>', '#include <sstream>', '#include <type_traits>', '#include <limits>', '#include "prog.emb.h"',
         "static unsigned long long g_n = 0, g_viol = 0;",
         "#define CHECK(COND, IDX, WHAT) do { ++g_n; if (!(COND)) { ++g_viol; std::printf(\"ENUMVIOL %d %s\\n\", IDX, WHAT); } } while (0)",
         "int main() {"]
    for i, e in enumerate(enums):
        E = "%s::Ee%d" % (ns, i)
        signed = e["signed"] if e["signed"] is not None else any(v < 0 for v in e["values"])
        maxbits = e["maxbits"] or 64
        L.append("  { typedef %s E; typedef std::underlying_type<E>::type U; E out;" % E)
        L.append("    CHECK(std::is_signed<U>::value == %s, %d, \"underlying-signedness\");" % ("true" if signed else "false", i))
        L.append("    CHECK(sizeof(U) * 8 >= %d, %d, \"underlying-width\");" % (maxbits, i))
        declared = {}
        for k, (n, v) in enumerate(zip(e["names"], e["values"])):
            declared.setdefault(v, n)
            for sp in spellings(e, k):
                L.append("    CHECK(static_cast<U>(E::%s) == static_cast<U>(%s), %d, \"enumerator-value:%s\");" % (sp, lit(v, signed), i, sp))
            first_sp = spellings(e, k)[0]
            L.append("    CHECK(TryToGetEnumFromName(\"%s\", &out) && static_cast<U>(out) == static_cast<U>(%s), %d, \"from-name:%s\");" % (
                n, lit([vv for nn, vv in zip(e["names"], e["values"]) if nn == n][0], signed), i, n))
            L.append("    CHECK(EnumIsKnown(E::%s), %d, \"is-known:%s\");" % (first_sp, i, n))
        for v, n in declared.items():
            L.append("    { const char *nm = TryToGetNameFromEnum(static_cast<E>(static_cast<U>(%s))); CHECK(nm != nullptr && std::strcmp(nm, \"%s\") == 0, %d, \"name-from-value:%d\"); }" % (
                lit(v, signed), n, i, v))
            L.append("    { std::ostringstream os; os << static_cast<E>(static_cast<U>(%s)); CHECK(os.str() == \"%s\", %d, \"ostream-named\"); }" % (lit(v, signed), n, i))
        # names that must be rejected
        rejects = [n for n in NAMES if n not in e["names"]] + [k_camel(n) for n in e["names"]] + ["", "0", "1", "aa", "Aa", " AA", "AA "]
        for r in rejects:
            if r in e["names"]:
                continue
            L.append("    CHECK(!TryToGetEnumFromName(\"%s\", &out), %d, \"rejects-name:%s\");" % (r, i, r))
        L.append("    CHECK(!TryToGetEnumFromName(nullptr, &out), %d, \"rejects-nullptr\");" % i)
        # undeclared neighbours and type extremes
        lo, hi = (-2 ** (maxbits - 1), 2 ** (maxbits - 1) - 1) if signed else (0, 2 ** maxbits - 1)
        probes = set()
        for v in e["values"]:
            probes.update([v - 1, v + 1])
        probes.update([lo, hi, 0, 1, 2, -1 if signed else 3])
        for p in sorted(probes):
            if p in declared or p < lo or p > hi:
                continue
            L.append("    CHECK(TryToGetNameFromEnum(static_cast<E>(static_cast<U>(%s))) == nullptr, %d, \"name-of-undeclared:%d\");" % (lit(p, signed), i, p))
            L.append("    CHECK(!EnumIsKnown(static_cast<E>(static_cast<U>(%s))), %d, \"known-undeclared:%d\");" % (lit(p, signed), i, p))
        # an enum field of width maximum_bits reads and writes every in-range value, named or not
        fvals = sorted(set([v for v in e["values"] if lo <= v <= hi] + [p for p in probes if lo <= p <= hi]))
        nbytes = (maxbits + 7) // 8
        accs = ["b().f()"] + (["g()"] if maxbits % 8 == 0 else [])
        for acc in accs:
            for v in fvals:
                L.append("    { unsigned char buf[16]; std::memset(buf, 0x5A, 16); auto view = %s::MakeSs%dView(buf, sizeof buf); auto f = view.%s;"
                         " E val = static_cast<E>(static_cast<U>(%s));"
                         " CHECK(f.CouldWriteValue(val), %d, \"field-could-write:%d\");"
                         " CHECK(f.TryToWrite(val) && f.Ok() && f.Read() == val, %d, \"field-write-read:%d\"); }" % (
                             ns, i, acc, lit(v, signed), i, v, i, v))
        L.append("  }")
    L.append('  std::printf("SUMMARY n=%llu viol=%llu\\n", g_n, g_viol);')
    L.append("  return 0;\n}")
    return "\n".join(L)


def run_pack(enums, module_case, vecs):
    """Returns (violations, checks_run)."""
    src = module_text(enums, module_case)
    headers, err, ex = cppdrv.compile_headers({"m.emb": src}, "m.emb")
    if ex is not None:
        return [{"key": common.exc_key(ex), "msg": repr(ex), "detail": {"emb": src}}], 0
    if err:
        return [{"key": "pack-rejected", "msg": err, "detail": {"emb": src}}], 0
    drv = driver_for(enums)
    with cppdrv.Scratch() as sc:
        res = cppdrv.build_and_run(sc, headers, "m.emb.h", drv, flags=["-O0"])
    if res["compile_rc"] != 0:
        if len(enums) > 1:
            viol, n = [], 0
            for e, v in zip(enums, vecs):
                vv, nn = run_pack([e], module_case, [v])
                viol.extend(vv)
                n += nn
            if not any(x["key"] in ("enum-header-does-not-compile", "collide:kCamelCase") for x in viol):
                # every enum is fine on its own but not next to the others: one definition influenced another
                viol.append({"key": "enum-definitions-interfere", "msg": "pack compiles only one enum at a time: " + res["compile_err"][-300:],
                             "detail": {"emb": src}})
            return viol, n
        e = enums[0]
        key = "enum-header-does-not-compile"
        kc = [k_camel(n) for n in e["names"]]
        if e["case"] and "kCamelCase" in e["case"] and len(set(kc)) < len(kc):
            key = "collide:kCamelCase"
        return [{"key": key, "msg": res["compile_err"][-500:], "detail": {"emb": src, "vector": vecs[0]}}], 0
    viol = []
    out = res["stdout"].decode()
    for line in out.split("\n"):
        if line.startswith("ENUMVIOL"):
            _t, idx, what = line.split(" ", 2)
            e_ = enums[int(idx)]
            sg = e_["signed"] if e_["signed"] is not None else any(v < 0 for v in e_["values"])
            key = "enum-" + what.split(":")[0]
            if what.startswith("field-") and sg and (e_["maxbits"] or 64) not in (8, 16, 32, 64) and int(what.split(":")[1]) < 0:
                key = "signed-enum-narrow"
            viol.append({"key": key, "msg": "%s in %s" % (what, " / ".join(enum_text(enums[int(idx)]))),
                         "detail": {"emb": "\n".join(enum_text(enums[int(idx)])), "vector": vecs[int(idx)]}})
    m = re.search(r"SUMMARY n=(\d+)", out)
    if res["run_rc"] != 0 or not m:
        viol.append({"key": "driver-crashed", "msg": res["stderr"][-300:], "detail": {"emb": src}})
        return viol, 0
    return viol, int(m.group(1))


def check_case(case):
    enums, vecs = [], []
    stats = {"enums": 0, "accepted": 0, "rejected": 0}
    viol = []
    for vec in case["vectors"]:
        e = explore.replay(gen_enum, vec)
        stats["enums"] += 1
        src = module_text([e], e["case"] if e["place"] == "module" else None)
        ir, errors, ex = common.front_end({"m.emb": src}, keep_cache=False)
        if ex is not None:
            viol.append({"key": common.exc_key(ex), "msg": repr(ex), "detail": {"emb": src}})
            continue
        if errors:
            stats["rejected"] += 1
            continue
        stats["accepted"] += 1
        enums.append(e)
        vecs.append(vec)
    n = 0
    nt = []
    groups = {}
    for e, v in zip(enums, vecs):
        mc = e["case"] if e["place"] == "module" else None
        groups.setdefault(mc, []).append((e, v))
    for mc, items in groups.items():
        for lo in range(0, len(items), 25):
            chunk = items[lo:lo + 25]
            vv, nn = run_pack([x[0] for x in chunk], mc, [x[1] for x in chunk])
            viol.extend(vv)
            n += nn
    for v in vecs:
        if v:
            nt.append(json.dumps(v))
    seen, keep = {}, []
    for v in viol:
        seen[v["key"]] = seen.get(v["key"], 0) + 1
        if seen[v["key"]] <= 3:
            keep.append(v)
    return {"viol": keep, "n": n + stats["enums"], "nt": nt, "stats": stats}


def sample_of(case):
    e = explore.replay(gen_enum, case["vectors"][-1])
    return {"choice_vector": case["vectors"][-1], "emb": module_text([e], e["case"] if e["place"] == "module" else None)}
