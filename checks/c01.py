"""C01 -- generated views report structure state and values exactly as the .emb defines.
EmbSpace programs (<= k feature deviations from the default program) x parameter
tuples x prefix-closed buffer sets (control byte exhaustive over the control fields
the program mentions), executed through the real compiler + g++ and compared,
observation by observation, with the reference semantics on the generator's AST."""
import json

from vk import common, cppdrv, embgen, explore, refsem, embast

PROPERTY = "C01"
LEVEL = "exploration"
RULE = ("EmbSpace programs with at most 1 (quick) / 2 (thorough) non-default feature choices x parameter tuples x every "
        "buffer of every length 0..L over per-position alphabets (control fields exhaustive, payload {00,FF,99,5A} or a "
        "threshold alphabet where an expression reads the byte; cap 4096/16384 buffers per program). Oracle: refsem "
        "(Ok, IsComplete, SizeIsKnown, size, per-field presence U/T/F, ok, value, element counts, recursively) and "
        "monotonicity under buffer extension. Non-trivial = program with a dynamic aspect whose buffers show >=2 distinct "
        "(Ok,size,presence) outcomes; distinct by choice vector.")
ASSUMPTIONS = ["vk/refsem.py transcribes doc/language-reference.md and doc/cpp-reference.md",
               "x86-64 little-endian host, g++ -std=c++14 -O0",
               "values read through a conditional virtual field whose condition is false are not compared"]
TIMEOUT = 1800


def bounds(tier):
    return {"deviations": 1 if tier == "quick" else 2, "buffer_cap": 4096 if tier == "quick" else 16384}


def gen_cases(tier):
    bound = 1 if tier == "quick" else 2
    for forced, trace, prog in explore.enumerate_vectors(embgen.program, bound):
        yield {"vector": explore.vector_of(forced, trace)}


def build_program(case):
    return explore.replay(embgen.program, case["vector"])


def compare_records(prog, stdout, stats, viol, case):
    sem = refsem.Sem(prog.module)
    outcomes = set()
    n = 0
    known_prefix = {}
    for line in stdout.decode("ascii", "replace").split("\n"):
        if not line:
            continue
        n += 1
        head, rest = line.split(" ", 1)
        pi = int(head[1:])
        hexs, top, obs = rest.split("|", 2)
        data = bytes.fromhex(hexs)
        params = dict(zip([p for p, _t in prog.module.struct(prog.root).params], prog.param_tuples[pi]))
        st = prog.module.struct(prog.root)
        for (pn, pt) in st.params:
            if pt[0] == "enum":
                params[pn] = ("enum", pt[1], params[pn])
        view = sem.root_view(prog.root, params, data)
        want_top, want_obs = refsem.observe_top(view)
        got_obs = [o for o in obs.split(";") if o]
        outcomes.add((top, tuple(o.split(",")[0] for o in got_obs)))
        top_ok = (top == want_top)
        if not top_ok and want_top.endswith(":-") and top[2] == "1":
            # the implementation may know the size earlier than the reference (e.g. $max with a bounded unknown
            # operand); soundness of that is decided by the monotonicity oracle below and by agreement on longer
            # buffers.  IsComplete must then be consistent with the reported size, Ok with the reference.
            sz = int(top.split(":")[1])
            top_ok = (top[1] == ("1" if len(data) >= sz else "0")) and top[0] == want_top[0]
        obs_ok = len(got_obs) == len(want_obs) and all(refsem.obs_match(g, w) for g, w in zip(got_obs, want_obs))
        if not top_ok or not obs_ok:
            d = None
            if not top_ok:
                d = ("<top ok,complete,sizeknown:size>", top, want_top)
            else:
                for g, w in zip(got_obs, want_obs):
                    if not refsem.obs_match(g, w):
                        d = (g.split("=")[0], g, w)
                        break
                if d is None:
                    d = ("<length>", str(len(got_obs)), str(len(want_obs)))
            key = "observation-mismatch"
            # finding #15: partially present array claims Ok/IsComplete
            if "#" in d[1] and "#" in d[2] and d[1].split(",")[1] == "1" and d[2].split(",")[1] == "0":
                key = "array-partial-ok"
            elif d[0][0] != "<":
                t = refsem.type_at(prog.module, prog.root, d[0])
                if t is not None and t[0] == "enum" and sem.enum_signed(prog.module.enum(t[1])):
                    try:
                        gv, wv = int(d[1].split(",")[2]), int(d[2].split(",")[2])
                        if gv - wv in (1 << 8, 1 << 16, 1 << 32, 1 << 4):
                            key = "signed-enum-narrow"
                    except ValueError:
                        pass
            viol.append({"key": key, "msg": "params=%s buffer=%s %s: got %s want %s" % (
                prog.param_tuples[pi], hexs, d[0], d[1], d[2]),
                "detail": {"emb": prog.files(), "params": prog.param_tuples[pi], "buffer": hexs,
                           "path": d[0], "actual": d[1], "expected": d[2]}})
            if len([v for v in viol if v["key"] == key]) > 3:
                pass
        # monotonicity: everything definite at the one-byte-shorter prefix keeps its value
        pk = (pi, hexs[:-2]) if hexs else None
        cur = {"top": top}
        for g in got_obs:
            cur[g.split("=")[0]] = g.split("=", 1)[1]
        if pk in known_prefix:
            pv = known_prefix[pk]
            t0, t1 = pv["top"], top
            # SizeIsKnown / size
            if t0[2] == "1" and (t1[2] != "1" or t0.split(":")[1] != t1.split(":")[1]):
                viol.append({"key": "not-monotone-size", "msg": "buffer=%s size known at prefix (%s) but now %s" % (hexs, t0, t1),
                             "detail": {"emb": prog.files(), "buffer": hexs}})
            if t0[1] == "1" and t1[1] != "1":
                viol.append({"key": "not-monotone-complete", "msg": "buffer=%s" % hexs, "detail": {"emb": prog.files(), "buffer": hexs}})
            if t0[0] == "1" and t1[0] != "1":
                viol.append({"key": "not-monotone-ok", "msg": "buffer=%s" % hexs, "detail": {"emb": prog.files(), "buffer": hexs}})
            for path, val in pv.items():
                if path == "top" or path not in cur:
                    continue
                h0, o0, v0 = val.split(",", 2)
                h1, o1, v1 = cur[path].split(",", 2)
                if h0 != "U" and h1 != h0:
                    viol.append({"key": "not-monotone-presence", "msg": "buffer=%s %s: %s -> %s" % (hexs, path, val, cur[path]),
                                 "detail": {"emb": prog.files(), "buffer": hexs}})
                if o0 == "1" and not v0.startswith("#") and v0 != "{" and (o1 != "1" or v1 != v0):
                    viol.append({"key": "not-monotone-value", "msg": "buffer=%s %s: %s -> %s" % (hexs, path, val, cur[path]),
                                 "detail": {"emb": prog.files(), "buffer": hexs}})
        known_prefix[(pi, hexs)] = cur
        # never stop early: a flood of one (possibly known) kind of mismatch must not hide a different one further on
        if len(viol) > 400:
            seen_k = {}
            kept = []
            for v in viol:
                seen_k[v["key"]] = seen_k.get(v["key"], 0) + 1
                if seen_k[v["key"]] <= 3:
                    kept.append(v)
            viol[:] = kept
    stats["records"] = stats.get("records", 0) + n
    return len(outcomes)


def check_case(case):
    prog = build_program(case)
    files = prog.files()
    stats = {"programs": 1, "accepted": 0, "rejected": 0}
    viol = []
    headers, err, ex = cppdrv.compile_headers(files, "m.emb")
    if ex is not None:
        return {"viol": [{"key": common.exc_key(ex), "msg": repr(ex), "detail": {"emb": files}}], "n": 1, "stats": stats}
    if err:
        stats["rejected"] = 1
        return {"viol": [], "n": 1, "stats": stats, "rejected": err}
    stats["accepted"] = 1
    drv = cppdrv.driver_source(prog.module, prog.root, prog.param_tuples, prog.alphabets)
    with cppdrv.Scratch() as sc:
        res = cppdrv.build_and_run(sc, headers, "m.emb.h", drv)
    if res["compile_rc"] != 0:
        return {"viol": [{"key": "header-does-not-compile", "msg": res["compile_err"][-600:], "detail": {"emb": files}}],
                "n": 1, "stats": stats}
    if res["run_rc"] != 0:
        return {"viol": [{"key": "driver-crashed", "msg": "rc=%s %s" % (res["run_rc"], res["stderr"][-500:]), "detail": {"emb": files}}],
                "n": 1, "stats": stats}
    nout = compare_records(prog, res["stdout"], stats, viol, case)
    # collapse repeated keys
    seen = {}
    out = []
    for v in viol:
        seen[v["key"]] = seen.get(v["key"], 0) + 1
        if seen[v["key"]] <= 2:
            out.append(v)
    dynamic = any(x != 0 for _t, _i, x in case["vector"])
    nt = [json.dumps(case["vector"])] if (dynamic and nout >= 2) else []
    stats["distinct_outcomes"] = nout
    return {"viol": out, "n": stats.get("records", 0), "nt": nt, "stats": stats}


def sample_of(case):
    prog = build_program(case)
    return {"choice_vector": case["vector"], "emb": prog.files()["m.emb"], "params": prog.param_tuples,
            "alphabet_sizes": [len(a) for a in prog.alphabets]}
