"""C13 -- expression typing: well-typed modules accepted, ill-typed rejected
(never accepted, never a crash).  Exhaustive: every operator/function applied to
every operand tuple over an 11-atom type alphabet, placed in every position
whose required type is documented; oracle = signature table transcribed from
doc/language-reference.md."""
import itertools

from vk import common

PROPERTY = "C13"
LEVEL = "exploration"
RULE = ("every operator/function (11 binary, unary +/-, ?:, $max with 0-3 args, $present/$upper_bound/$lower_bound with "
        "0-2 args) x every operand tuple over 11 atoms (int const/field/param, bool const/Flag, enum A value/field/param, "
        "enum B value, struct field, array field) x every position (offset, size, array length, condition, field and struct "
        "[requires], virtual value, integer and enum parameter argument, enum value, maximum_bits, is_signed); thorough adds "
        "depth-2 compositions. Oracle = documented signatures. Non-trivial = case whose expected verdict depends on operand "
        "types; distinct by (expression, position).")
ASSUMPTIONS = ["signature table in checks/c13.py (from the language reference)",
               "unspecified and not compared: ordering comparisons of two values of one enum; ?: or == over struct/array operands "
               "in alias positions; $present of a parameter is expected to be either accepted or rejected but never crash"]
TIMEOUT = 1800

ATOMS = [
    ("3", "int", True), ("x", "int", False), ("p", "int", False),
    ("true", "bool", True), ("flg", "bool", False),
    ("Aa.AV", "enum:Aa", True), ("ea", "enum:Aa", False), ("q", "enum:Aa", False),
    ("Bb.BV", "enum:Bb", True),
    ("im.Aa.AV", "enum:im.Aa", True),      # same enum name, different module
    ("st", "struct", False), ("arr", "array", False),
]
FIELD_ATOMS = {"x", "flg", "ea", "st", "arr"}       # references to fields (legal $present arguments)
BIN_ARITH = ["+", "-", "*"]
BIN_EQ = ["==", "!="]
BIN_ORD = ["<", "<=", ">", ">="]
BIN_LOGIC = ["&&", "||"]

IMPORTED = "enum Aa:\n  AV = 1\n  AW = 2\n"
HEADER = '''import "imp.emb" as im
[$default byte_order: "LittleEndian"]
enum Aa:
  AV = 1
  AW = 2
enum Bb:
  BV = 1
struct Inner:
  0 [+1]  UInt  y
struct Par(pp: UInt:8):
  0 [+1]  UInt  y
struct ParE(pe: Aa):
  0 [+1]  UInt  y
'''
FOO = '''struct Foo(p: UInt:8, q: Aa):
%s  0 [+1]  UInt  x
  1 [+1]  bits:
    0 [+1]  Flag  flg
  2 [+1]  Aa  ea
  3 [+1]  Inner  st
  4 [+4]  UInt:8[4]  arr
%s'''

# position -> (required type, needs_constant, builder(E) -> (pre_attr_lines, body_lines, extra_types))
POSITIONS = {
    "offset": ("int", False),
    "size": ("int", False),
    "arraylen": ("int", False),
    "arraylen_a": ("int", False),
    "arraylen_b": ("int", False),
    "cond": ("bool", False),
    "freq": ("bool", False),
    "sreq": ("bool", False),
    "virt": ("any", False),
    "virt_fwd": ("any", False),        # the virtual field is first reached through a reference from an earlier field
    "virt_static": ("any", False),     # ... or through a static reference Foo.probe from an earlier structure
    "virt_static_size": ("int", False),  # the static reference sits in a field size (evaluated before constancy is checked)
    "virt_static_enum": ("int", False),  # ... or is an enum value
    "parg": ("int", False),
    "pearg": ("enum:Aa", False),
    "enumval": ("int", True),
    "maxbits": ("int", True),
    "is_signed": ("bool", True),
}


def build(pos, E):
    """Returns (source text, first line of the probe construct, last line)."""
    pre = ""
    body = ""
    extra = ""
    prefix = ""
    if pos == "offset":
        body = "  %s [+1]  UInt  probe\n" % E
    elif pos == "size":
        body = "  8 [+%s]  UInt:8[]  probe\n" % E
    elif pos == "arraylen":
        body = "  8 [+4]  UInt:8[%s]  probe\n" % E
    elif pos == "arraylen_a":
        body = "  8 [+8]  UInt:8[%s][2]  probe\n" % E
    elif pos == "arraylen_b":
        body = "  8 [+8]  UInt:8[2][%s]  probe\n" % E
    elif pos == "cond":
        body = "  if %s:\n    8 [+1]  UInt  probe\n" % E
    elif pos == "freq":
        body = "  8 [+1]  UInt  probe\n    [requires: %s]\n" % E
    elif pos == "sreq":
        pre = "  [requires: %s]\n" % E
    elif pos == "virt":
        body = "  let probe = %s\n" % E
    elif pos == "virt_fwd":
        body = "  let early = probe\n  let probe = %s\n" % E
    elif pos == "virt_static":
        body = "  let probe = %s\n" % E
        prefix = "struct Early:\n  0 [+1]  UInt  e\n  let early = Foo.probe\n"
    elif pos == "virt_static_size":
        body = "  let probe = %s\n" % E
        prefix = "struct Early:\n  0 [+Foo.probe]  UInt:8[]  e\n"
    elif pos == "virt_static_enum":
        body = "  let probe = %s\n" % E
        prefix = "enum Early:\n  EV = Foo.probe\n"
    elif pos == "parg":
        body = "  8 [+1]  Par(%s)  probe\n" % E
    elif pos == "pearg":
        body = "  8 [+1]  ParE(%s)  probe\n" % E
    elif pos == "enumval":
        extra = "enum Ee:\n  VV = %s\n" % E
    elif pos == "maxbits":
        extra = "enum Ee:\n  [maximum_bits: %s]\n  VV = 1\n" % E
    elif pos == "is_signed":
        extra = "enum Ee:\n  [is_signed: %s]\n  VV = 1\n" % E
    src = HEADER + prefix + FOO % (pre, body) + extra
    lines = src.split("\n")
    # locate the probe lines: those containing E inside the construct
    marks = [i + 1 for i, l in enumerate(lines) if "Foo.probe" in l] + [i + 1 for i, l in enumerate(lines) if E in l and ("probe" in l or "requires" in l or "VV" in l or
                                                                "maximum_bits" in l or "is_signed" in l or l.strip().startswith("if "))]
    return src, marks


def type_of(node):
    """node: ('atom', idx) | (op, args...).  Returns type string, 'ERROR', or 'UNSPEC'."""
    k = node[0]
    if k == "atom":
        return ATOMS[node[1]][1]
    ts = [type_of(a) for a in node[1:]]
    if "UNSPEC" in ts:
        return "UNSPEC"
    if k == "present":
        if len(node) != 2:
            return "ERROR"
        a = node[1]
        if a[0] == "atom" and ATOMS[a[1]][0] in FIELD_ATOMS:
            return "bool"
        if a[0] == "atom" and ATOMS[a[1]][0] in ("p", "q"):
            return "UNSPEC"      # parameter: "must be a reference to a field" -- either verdict, never a crash
        return "ERROR"
    if "ERROR" in ts:
        return "ERROR"
    if k in BIN_ARITH:
        return "int" if ts == ["int", "int"] else "ERROR"
    if k in BIN_EQ:
        if ts[0] == ts[1] and (ts[0] in ("int", "bool") or ts[0].startswith("enum:")):
            return "bool"
        return "ERROR"
    if k in BIN_ORD:
        if ts == ["int", "int"]:
            return "bool"
        if ts[0] == ts[1] and ts[0].startswith("enum:"):
            return "UNSPEC"
        return "ERROR"
    if k in BIN_LOGIC:
        return "bool" if ts == ["bool", "bool"] else "ERROR"
    if k in ("neg", "pos"):
        return "int" if ts == ["int"] else "ERROR"
    if k == "?:":
        if ts[0] != "bool":
            return "ERROR"
        if ts[1] != ts[2]:
            return "ERROR"
        if ts[1] in ("struct", "array"):
            return "UNSPEC"
        return ts[1]
    if k == "max":
        if len(ts) == 0:
            return "ERROR"
        return "int" if all(t == "int" for t in ts) else "ERROR"
    if k in ("ub", "lb"):
        return "int" if ts == ["int"] else "ERROR"
    raise ValueError(k)


def is_const(node):
    if node[0] == "atom":
        return ATOMS[node[1]][2]
    if node[0] in ("ub", "lb"):
        return True
    if node[0] == "present":
        return False
    return all(is_const(a) for a in node[1:])


def const_value(node):
    """Value of a constant expression over the constant atoms, else None."""
    k = node[0]
    if k == "atom":
        return {"3": 3, "true": True, "Aa.AV": ("Aa", 1), "Bb.BV": ("Bb", 1), "im.Aa.AV": ("im.Aa", 1)}.get(ATOMS[node[1]][0])
    vs = [const_value(a) for a in node[1:]]
    if any(v is None for v in vs):
        return None
    try:
        if k == "+":
            return vs[0] + vs[1]
        if k == "-":
            return vs[0] - vs[1]
        if k == "*":
            return vs[0] * vs[1]
        if k == "neg":
            return -vs[0]
        if k == "pos":
            return vs[0]
        if k == "max":
            return max(vs)
        if k in ("ub", "lb"):
            return vs[0]
        if k == "?:":
            return vs[1] if vs[0] else vs[2]
        if k == "==":
            return vs[0] == vs[1]
        if k == "!=":
            return vs[0] != vs[1]
        if k in BIN_ORD:
            return {"<": vs[0] < vs[1], "<=": vs[0] <= vs[1], ">": vs[0] > vs[1], ">=": vs[0] >= vs[1]}[k]
        if k == "&&":
            return vs[0] and vs[1]
        if k == "||":
            return vs[0] or vs[1]
    except TypeError:
        return None
    return None


def text(node):
    k = node[0]
    if k == "atom":
        return ATOMS[node[1]][0]
    a = [text(x) for x in node[1:]]
    if k in BIN_ARITH + BIN_EQ + BIN_ORD + BIN_LOGIC:
        return "(%s %s %s)" % (a[0], k, a[1])
    if k == "neg":
        return "(-%s)" % a[0]
    if k == "pos":
        return "(+%s)" % a[0]
    if k == "?:":
        return "(%s ? %s : %s)" % tuple(a)
    name = {"max": "$max", "present": "$present", "ub": "$upper_bound", "lb": "$lower_bound"}[k]
    return "%s(%s)" % (name, ", ".join(a))


def gen_exprs(tier):
    A = [("atom", i) for i in range(len(ATOMS))]
    out = list(A)
    for op in BIN_ARITH + BIN_EQ + BIN_ORD + BIN_LOGIC:
        for x in A:
            for y in A:
                out.append((op, x, y))
    for x in A:
        out.append(("neg", x))
        out.append(("pos", x))
    for c in A:
        for x in A:
            for y in A:
                out.append(("?:", c, x, y))
    for n in range(0, 4):
        for args in itertools.product(A, repeat=n):
            out.append(("max",) + args)
    for n in (9, 10):
        out.append(("max",) + tuple(A[0] if k % 2 else A[1] for k in range(n)))
        for bad in (A[3], A[5], A[9]):
            for pos in range(n):
                out.append(("max",) + tuple(bad if k == pos else (A[0] if k % 2 else A[1]) for k in range(n)))
    for f in ("present", "ub", "lb"):
        for n in range(0, 3):
            for args in itertools.product(A, repeat=n):
                out.append((f,) + args)
    if tier != "quick":
        # depth 2: two representatives per result type as operands of every operator
        reps = [("+", A[1], A[0]), ("*", A[2], A[1]), ("==", A[1], A[0]), ("&&", A[4], A[3]),
                ("?:", A[4], A[5], A[6]), ("?:", A[3], A[8], A[8]), ("max", A[1], A[2]), ("present", A[1]),
                ("<", A[9], A[0]), ("+", A[3], A[0])]
        pool = reps + [A[0], A[3], A[5], A[9]]
        for op in BIN_ARITH + BIN_EQ + BIN_ORD + BIN_LOGIC:
            for x in pool:
                for y in pool:
                    if x[0] != "atom" or y[0] != "atom":
                        out.append((op, x, y))
        for c in pool:
            for x in pool:
                for y in pool:
                    if "atom" not in (c[0], x[0], y[0]) or (c[0] != "atom" or x[0] != "atom" or y[0] != "atom"):
                        out.append(("?:", c, x, y))
        for x in reps:
            out += [("neg", x), ("ub", x), ("lb", x), ("max", x), ("present", x)]
    return out


def expected(node, pos):
    """'accept' | 'reject' | None (unspecified)."""
    t = type_of(node)
    if t == "UNSPEC":
        return None
    if t == "ERROR":
        return "reject"
    req, need_const = POSITIONS[pos]
    if pos == "enumval" and t.startswith("enum:"):
        return None           # alias of another enum value: accepted and pinned by expression_bounds_test; undocumented
    if need_const and not all(a in ("3", "true", "Aa.AV", "Bb.BV", "im.Aa.AV") for a in _atoms(node, set())):
        return "reject"       # enum scope: fields are not even visible; attributes need constants
    if pos in ("arraylen_a", "arraylen_b") and not all(
            a in ("3", "true", "Aa.AV", "Bb.BV", "im.Aa.AV") for a in _atoms(node, set())):
        return None           # constness of a dimension is C14's rule; compare typing only on constant operands
    if pos in ("arraylen_a", "arraylen_b") and t == "int":
        v = const_value(node)
        if v is None or not (1 <= v <= 8):
            return None
    if pos == "offset" and t == "int":
        v = const_value(node)
        if isinstance(v, int) and not isinstance(v, bool) and v < 0:
            return None       # a negative constant start is a layout rule (C14), not a typing one
    if pos == "virt_static_enum" and t.startswith("enum:"):
        return None           # an enum value aliasing another enum's value: undocumented, as for `enumval`
    if pos in ("virt_static_size", "virt_static_enum") and type_of(node) != "ERROR":
        # a static reference in a size / enum value must be a constant integer
        if not all(a in ("3", "true", "Aa.AV", "Bb.BV", "im.Aa.AV") for a in _atoms(node, set())) or t != "int":
            return None if t == "int" else "reject"
        v = const_value(node)
        if v is None or not (1 <= v <= 8):
            return None
    if pos == "maxbits" and t == "int":
        v = const_value(node)
        if v is None or not (2 <= v <= 64):
            return None       # well-typed, but the value itself may be out of maximum_bits' range (C14's business)
    if pos == "virt_static" and not all(a in ("3", "true", "Aa.AV", "Bb.BV", "im.Aa.AV") for a in _atoms(node, set())):
        return None           # a static reference needs a constant target; only typing is compared here
    if req == "any":
        if t in ("struct", "array"):
            # `let v = st` is an alias (documented); anything else producing these types was UNSPEC above
            return "accept" if node[0] == "atom" else None
        return "accept"
    if t in ("struct", "array"):
        return "reject"
    return "accept" if t == req else "reject"


_E = {}


def gen_cases(tier):
    exprs = gen_exprs(tier)
    _E[tier] = exprs
    n = len(exprs)
    for pos in POSITIONS:
        if tier == "quick" and pos not in ("virt", "cond", "enumval", "virt_fwd", "virt_static", "virt_static_size", "virt_static_enum"):
            # quick: expressions that are ill-typed in themselves are placed in 4 positions only
            ids = [i for i, e in enumerate(exprs) if type_of(e) != "ERROR"]
        else:
            ids = list(range(n))
        for lo in range(0, len(ids), 250):
            yield {"tier": tier, "pos": pos, "ids": ids[lo:lo + 250]}


def bounds(tier):
    return {"atoms": len(ATOMS), "positions": list(POSITIONS), "depth": 1 if tier == "quick" else 2}


def _atoms(node, acc):
    if node[0] == "atom":
        acc.add(ATOMS[node[1]][0])
    else:
        for a in node[1:]:
            _atoms(a, acc)
    return acc


def check_one(node, pos):
    E = text(node)
    want = expected(node, pos)
    if pos == "freq":
        # a field's [requires] sees only `this` (the field's own value), not its siblings
        at = _atoms(node, set())
        if at & {"p", "flg", "ea", "q", "st", "arr"}:
            return None, None
        if "x" in at:
            import re
            E = re.sub(r"\bx\b", "this", E)
    src, marks = build(pos, E)
    ir, errors, ex = common.front_end({"m.emb": src, "imp.emb": IMPORTED}, keep_cache=False)
    case = {"expr": E, "pos": pos, "source": src}
    if ex is not None:
        return {"key": common.exc_key(ex), "msg": "%s in %s: %r" % (E, pos, ex), "detail": case}, want
    if want is None:
        return None, want
    if want == "accept":
        if errors:
            return {"key": "well-typed-rejected", "msg": "%s in %s: %s" % (E, pos, common.first_error_text(errors)),
                    "detail": case}, want
        return None, want
    if not errors:
        key = "ill-typed-accepted"
        if pos == "enumval" and type_of(node) not in ("int", "ERROR"):
            key = "enum-value-non-integer"
        return {"key": key, "msg": "%s (type %s) accepted in position %s" % (E, type_of(node), pos), "detail": case}, want
    g = common.error_groups(errors)
    f, loc, sev, msg = g[0][0]
    m0 = errors[0][0]
    if f != "m.emb" or loc[0] == 0 or m0.location.is_synthetic:
        return {"key": "error-location-bad", "msg": "%s in %s: %s at %s:%s" % (E, pos, msg.split(chr(10))[0], f, loc), "detail": case}, want
    if marks and not (min(marks) <= loc[0] <= max(marks)):
        return {"key": "error-not-in-construct", "msg": "%s in %s: error at line %d, construct at lines %s: %s" % (
            E, pos, loc[0], marks, msg.split(chr(10))[0]), "detail": case}, want
    return None, want


def check_case(case):
    tier = case["tier"]
    if tier not in _E:
        _E[tier] = gen_exprs(tier)
    exprs = _E[tier]
    viol, nt = [], []
    stats = {"accept": 0, "reject": 0, "unspecified": 0}
    for i in case["ids"]:
        v, want = check_one(exprs[i], case["pos"])
        stats["unspecified" if want is None else want] += 1
        if v:
            v["subcase"] = {"tier": tier, "pos": case["pos"], "ids": [i]}
            viol.append(v)
        if exprs[i][0] != "atom" and want is not None:
            nt.append("%s@%s" % (text(exprs[i]), case["pos"]))
    return {"viol": viol, "n": len(case["ids"]), "nt": nt, "stats": stats}


def sample_of(case):
    tier = case["tier"]
    if tier not in _E:
        _E[tier] = gen_exprs(tier)
    node = _E[tier][case["ids"][-1]]
    return {"expression": text(node), "position": case["pos"], "expected": expected(node, case["pos"]),
            "source": build(case["pos"], text(node))[0]}
