"""Reference semantics of Emboss views over the ground-truth AST (embast).

A direct, boring transcription of doc/language-reference.md and
doc/cpp-reference.md: values are Python ints / bools / ("enum", name, int);
every expression is evaluated in the known/unknown lattice (U = unknown).
"""
import struct as _struct


class _U(object):
    def __repr__(self):
        return "U"

    def __bool__(self):
        raise TypeError("truth value of Unknown")


U = _U()


class _X(object):
    """Unspecified: derived from a conditional virtual field whose condition is not true."""
    def __repr__(self):
        return "X"


X = _X()


def known(v):
    return v is not U


# ------------------------------------------------------------------ storage
class ByteBuf(object):
    """A byte-addressed backing store: `data` is the visible (possibly clipped) bytes; null = no storage."""
    unit = 8

    def __init__(self, data, null=False):
        self.data = bytes(data)
        self.null = null

    def size_units(self):
        return len(self.data)

    def ok(self):
        return not self.null

    def sub(self, start, size):
        if self.null:
            return ByteBuf(b"", True)
        if start > len(self.data):
            return ByteBuf(b"")
        return ByteBuf(self.data[start:start + size])

    def as_bits(self, nbits, order):
        """Container value of exactly nbits (a multiple of 8) in the given byte order, or None."""
        if self.null or len(self.data) * 8 != nbits:
            return None
        if order == "BigEndian":
            return int.from_bytes(self.data, "big")
        return int.from_bytes(self.data, "little")       # LittleEndian or Null (1 byte)


class BitBuf(object):
    """A bit-addressed backing store: value (int or None if unavailable) and its size in bits."""
    unit = 1

    def __init__(self, value, nbits):
        self.value = value
        self.nbits = nbits

    def size_units(self):
        return self.nbits

    def ok(self):
        return self.value is not None

    def sub(self, start, size):
        if self.value is None or start + size > self.nbits:
            return BitBuf(None, size)
        return BitBuf((self.value >> start) & ((1 << size) - 1), size)

    def as_bits(self, nbits, order):
        if self.value is None or self.nbits != nbits:
            return None
        return self.value


# ------------------------------------------------------------------ views
class ScalarView(object):
    def __init__(self, sem, typ, raw, nbits, requires, located=True):
        self.sem, self.typ, self.raw, self.nbits, self.requires = sem, typ, raw, nbits, requires
        self.kind = "scalar"

    def decode(self):
        """Value or U (U when bits unavailable or the pattern is invalid)."""
        raw, n, t = self.raw, self.nbits, self.typ
        if raw is None:
            return U
        k = t[0]
        if k == "UInt":
            return raw
        if k == "Int":
            return raw - (1 << n) if raw >> (n - 1) else raw
        if k == "Flag":
            return bool(raw)
        if k == "Bcd":
            v, mul, r = 0, 1, raw
            while r:
                d = r & 15
                if d > 9:
                    return U
                v += d * mul
                mul *= 10
                r >>= 4
            return v
        if k == "enum":
            e = self.sem.module.enum(t[1])
            signed = self.sem.enum_signed(e)
            if signed and n >= 1 and raw >> (n - 1):
                raw -= 1 << n
            return ("enum", t[1], raw)
        if k == "Float":
            if n == 32:
                return ("float", raw)
            return ("float", raw)
        raise ValueError(t)

    def ok(self):
        v = self.decode()
        if v is U:
            return False
        if self.requires is not None:
            r = self.sem.eval(self.requires, None, this=v)
            if r is U or r is not True:
                return False
        return True

    def value(self):
        return self.decode() if self.ok() else U


class ArrayView(object):
    def __init__(self, sem, elem_type, elem_units, buf, order, parent_view, declared_units):
        self.sem, self.elem_type, self.elem_units, self.buf, self.order = sem, elem_type, elem_units, buf, order
        self.parent_view = parent_view
        self.declared_units = declared_units      # extent the field asked for (None for a null view)
        self.kind = "array"

    def count(self):
        if self.elem_units == 0:
            return 0
        if not self.buf.ok():
            # a bit-addressed extent is static (the block is read as a whole): the element count survives missing
            # bytes and every element is simply not Ok; a byte-addressed extent is clipped to the bytes present
            return self.buf.size_units() // self.elem_units if self.buf.unit == 1 and self.declared_units is not None else 0
        return self.buf.size_units() // self.elem_units

    def element(self, i):
        sub = self.buf.sub(i * self.elem_units, self.elem_units)
        return self.sem.make_view(self.elem_type, sub, self.order, None, self.parent_view, self.elem_units)

    def entire(self):
        """cpp-reference: Ok()/IsComplete() only if the backing store holds the entire array."""
        return self.buf.ok() and self.declared_units is not None and self.buf.size_units() >= self.declared_units

    def ok(self):
        if not self.entire():
            return False
        return all(self.element(i).ok() for i in range(self.count()))


class NullView(object):
    kind = "null"

    def ok(self):
        return False

    def value(self):
        return U


class StructView(object):
    kind = "struct"

    def __init__(self, sem, sdef, params, buf, params_ok=True):
        self.sem, self.sdef, self.params, self.buf, self.params_ok = sem, sdef, params, buf, params_ok
        self._memo = {}

    # -- name lookup
    def lookup(self, name):
        for pn, pt in self.sdef.params:
            if pn == name:
                return ("param", pn, pt)
        for f in self.sdef.fields:
            if f.type is not None and f.type[0] == "anon":
                for g in f.type[1]:
                    if g.name == name or g.abbrev == name:
                        return ("anon_member", f, g)
            elif f.name == name or (f.abbrev and f.abbrev == name):
                return ("field", f)
        raise KeyError(name)

    # -- existence
    def has(self, name):
        """True / False / U."""
        kind = self.lookup(name)
        if kind[0] == "param":
            return True
        if kind[0] == "anon_member":
            outer = self.cond_of(kind[1])
            inner = self.sem.eval(kind[2].cond, self.anon_view(kind[1])) if kind[2].cond is not None else True
            return self.sem.and_(outer, inner)
        return self.cond_of(kind[1])

    def cond_of(self, f):
        if f.cond is None:
            return True
        return self.sem.eval(f.cond, self)

    def location(self, f):
        """(start, size) in this struct's units, or None when unknown or negative."""
        start = self.sem.eval(f.start, self, prev_end=self.prev_end(f))
        size = self.sem.eval(f.size, self)
        if start is U or size is U or start < 0 or size < 0:
            return None
        return start, size

    def prev_end(self, f):
        """Value of $next at field f: end of the previous physical field (U if unknown).
        Only evaluated for fields whose start actually mentions $next."""
        if not _uses_next(f.start):
            return U
        prev = None
        for g in self.sdef.fields:
            if g is f:
                break
            if not g.virtual:
                prev = g
        if prev is None:
            return U
        start = self.sem.eval(prev.start, self, prev_end=None if prev is f else self.prev_end(prev))
        size = self.sem.eval(prev.size, self)
        if start is U or size is U:
            return U
        return start + size

    def anon_view(self, f):
        key = ("anon", id(f))
        if key not in self._memo:
            loc = self.location(f) if self.cond_of(f) is True else None
            if loc is None:
                self._memo[key] = StructView(self.sem, _anon_struct(f), {}, BitBuf(None, 0))
            else:
                sub = self.buf.sub(loc[0], loc[1])
                order = self.sem.byte_order_of(f, self.sdef)
                nbits = loc[1] * self.buf.unit
                self._memo[key] = StructView(self.sem, _anon_struct(f), {}, BitBuf(sub.as_bits(nbits, order), nbits))
        return self._memo[key]

    def view_of(self, name):
        """The view object x() returns: Scalar/Array/Struct view, a virtual marker, or NullView."""
        key = ("view", name)
        if key in self._memo:
            return self._memo[key]
        kind = self.lookup(name)
        if kind[0] == "param":
            v = ParamView(self.params.get(name, U))
        elif kind[0] == "anon_member":
            if self.has(name) is True:
                v = self.anon_view(kind[1]).view_of(kind[2].name)
            else:
                v = NullView()
        else:
            f = kind[1]
            if f.virtual:
                v = VirtualView(self, f)
            elif self.has(name) is not True:
                v = self.sem.null_view(f.type)
            else:
                loc = self.location(f)
                if loc is None:
                    v = self.sem.null_view(f.type)
                else:
                    sub = self.buf.sub(loc[0], loc[1])
                    order = self.sem.byte_order_of(f, self.sdef)
                    v = self.sem.make_view(f.type, sub, order, f.requires, self, loc[1])
        self._memo[key] = v
        return v

    def value_of(self, name):
        v = self.view_of(name)
        if v.kind in ("scalar", "virtual", "param"):
            return v.value()
        return U

    # -- structure-level observations
    def size(self):
        """$size_in_bytes / $size_in_bits: max over physical fields of (exists ? end : 0); U if any term is unknown."""
        if "size" in self._memo:
            return self._memo["size"]
        best = 0
        res = None
        for f in self.sdef.fields:
            if f.virtual:
                continue
            c = self.cond_of(f)
            if c is U:
                res = U
                break
            if c is False:
                continue
            start = self.sem.eval(f.start, self, prev_end=self.prev_end(f))
            size = self.sem.eval(f.size, self)
            if start is U or size is U:
                res = U
                break
            best = max(best, start + size)
        if res is None:
            res = best
        self._memo["size"] = res
        return res

    def size_known(self):
        return self.size() is not U

    def is_complete(self):
        s = self.size()
        return self.buf.ok() and s is not U and self.buf.size_units() >= s

    def ok(self):
        if "ok" in self._memo:
            return self._memo["ok"]
        self._memo["ok"] = False     # cycle guard
        r = self._ok()
        self._memo["ok"] = r
        return r

    def _ok(self):
        if not self.is_complete() or not self.params_ok:
            return False
        for p, _t in self.sdef.params:
            if self.params.get(p, U) is U:
                return False
        for f in self.sdef.fields:
            names = [g.name for g in f.type[1]] if (f.type is not None and f.type[0] == "anon") else [f.name]
            if f.type is not None and f.type[0] == "anon":
                c = self.cond_of(f)
                if c is U:
                    return False
                if c is True and not self.anon_view(f).ok():
                    return False
            for n in names:
                h = self.has(n)
                if h is U:
                    return False
                if h is True and not self.view_of(n).ok():
                    return False
        if self.sdef.requires is not None:
            r = self.sem.eval(self.sdef.requires, self)
            if r is U or r is not True:
                return False
        return True


def _uses_next(e):
    if e is None:
        return False
    if e[0] == "next":
        return True
    if e[0] in ("op",):
        return _uses_next(e[2]) or _uses_next(e[3])
    if e[0] in ("neg",):
        return _uses_next(e[1])
    if e[0] in ("max", "?:"):
        return any(_uses_next(a) for a in e[1:])
    return False


class ParamView(object):
    kind = "param"

    def __init__(self, v):
        self.v = v

    def ok(self):
        return self.v is not U

    def value(self):
        return self.v


class VirtualView(object):
    kind = "virtual"

    def __init__(self, parent, f):
        self.parent, self.f = parent, f

    def raw(self):
        # What another expression sees when it mentions this virtual field.  The documentation does not say
        # what a conditional virtual field yields when its condition is false ("unspecified" hole, DESIGN 2.3);
        # the value is computed from the expression alone so that dependants are compared on defined cases only
        # (direct observations of the field itself are wildcarded in observe()).
        if self.parent.has(self.f.name) is not True:
            return X
        return self.parent.sem.eval(self.f.expr, self.parent)

    def ok(self):
        v = self.raw()
        if v is X:
            return X
        if v is U:
            return False
        if self.f.requires is not None:
            r = self.parent.sem.eval(self.f.requires, None, this=v)
            if r is U or r is not True:
                return False
        return True

    def value(self):
        r = self.raw()
        if r is X:
            return X
        return r if self.ok() else U


class _AnonStruct(object):
    pass


def _anon_struct(f):
    """The anonymous `bits:` block of field f as a bits Struct (cached on the field object itself)."""
    from . import embast
    st = getattr(f, "_anon_struct", None)
    if st is None:
        st = embast.Struct("<anon>", "bits", (), f.type[1])
        f._anon_struct = st
    return st


# ------------------------------------------------------------------ semantics
class Sem(object):
    def __init__(self, module):
        self.module = module

    # enum signedness as documented: explicit is_signed, else signed iff some value is negative
    def enum_signed(self, e):
        if e.is_signed is not None:
            return e.is_signed
        return any(v < 0 for _n, v in e.values)

    def byte_order_of(self, f, sdef):
        own = getattr(sdef, "module", None)
        return f.byte_order or sdef.byte_order or (own.byte_order if own is not None else self.module.byte_order) or "Null"

    def type_units(self, t, parent_unit, field_units):
        """Size of one value of type t in the parent's addressable units (for array elements)."""
        k = t[0]
        if k in ("UInt", "Int", "Bcd", "Float", "enum"):
            bits = t[1] if k != "enum" else t[2]
            if bits is None:
                return None
            return bits // parent_unit
        if k == "Flag":
            return 1 if parent_unit == 1 else None
        if k == "struct":
            s = self.module.struct(t[1])
            n = self.static_size(s)
            if n is None:
                return None
            return n * (8 if s.kind == "struct" else 1) // parent_unit
        raise ValueError(t)

    def static_size(self, s):
        """Size of a fixed-size structure in its own units, else None."""
        best = 0
        for f in s.fields:
            if f.virtual:
                continue
            if f.cond is not None:
                return None
            a, b = f.start, f.size
            if a[0] != "c" or b[0] != "c":
                return None
            best = max(best, a[1] + b[1])
        return best

    def null_view(self, t):
        """What x() returns when the field is absent / not locatable: a view over no storage."""
        if t[0] == "struct":
            s = self.module.struct(t[1])
            buf = ByteBuf(b"", True) if s.kind == "struct" else BitBuf(None, 0)
            return StructView(self, s, {}, buf, False)
        if t[0] == "array":
            return ArrayView(self, t[1], 1, ByteBuf(b"", True), "Null", None, None)
        return NullView()

    def make_view(self, t, sub, order, requires, parent_view, field_units):
        k = t[0]
        if k in ("UInt", "Int", "Bcd", "Float", "Flag", "enum"):
            declared = t[1] if k not in ("enum", "Flag") else (t[2] if k == "enum" else 1)
            nbits = declared if declared is not None else field_units * sub.unit
            if field_units * sub.unit != nbits:
                raw = None
            else:
                raw = sub.as_bits(nbits, order)
            return ScalarView(self, t, raw, nbits, requires)
        if k == "array":
            eu = self.type_units(t[1], sub.unit, None)
            return ArrayView(self, t[1], eu, sub, order, parent_view, field_units)
        if k == "struct":
            s = self.module.struct(t[1])
            params = {}
            pok = True
            for (pn, _pt), arg in zip(s.params, t[2]):
                v = self.eval(arg, parent_view)
                params[pn] = v
                if v is U:
                    pok = False
            if s.kind == "bits":
                nbits = field_units * sub.unit
                buf = BitBuf(sub.as_bits(nbits, order), nbits)
            else:
                buf = sub
            return StructView(self, s, params, buf, pok)
        raise ValueError(t)

    # three-valued connectives
    @staticmethod
    def and_(a, b):
        if a is False or b is False:
            return False
        if a is U or b is U:
            return U
        return True

    @staticmethod
    def or_(a, b):
        if a is True or b is True:
            return True
        if a is U or b is U:
            return U
        return False

    def resolve(self, view, path):
        """Walks a field path; returns (parent_view, last_name) or None if an intermediate is unavailable."""
        cur = view
        for name in path[:-1]:
            v = cur.view_of(name)
            if v.kind == "virtual":
                # alias of a structure-typed field
                tgt = v.f.expr
                if tgt[0] != "f":
                    return None
                r = self.resolve(cur, tgt[1] + ("_",))
                if r is None:
                    return None
                v = r[0]
                cur = v
                continue
            if v.kind != "struct":
                return None
            cur = v
        return cur, path[-1]

    def eval(self, e, view, this=U, prev_end=U):
        k = e[0]
        if k == "c" or k == "b":
            return e[1]
        if k == "ev":
            return ("enum", e[1], self.module.enum(e[1]).lookup(e[2]))
        if k == "this":
            return this
        if k == "next":
            return prev_end
        if k == "f":
            r = self.resolve(view, e[1])
            if r is None:
                return U
            return r[0].value_of(r[1])
        if k == "present":
            r = self.resolve(view, e[1])
            if r is None:
                return U
            return r[0].has(r[1])
        if k == "neg":
            a = self.eval(e[1], view, this, prev_end)
            if a is X:
                return X
            return U if a is U else -a
        if k == "max":
            vs = [self.eval(a, view, this, prev_end) for a in e[1:]]
            if any(v is X for v in vs):
                return X
            return U if any(v is U for v in vs) else max(vs)
        if k == "?:":
            c = self.eval(e[1], view, this, prev_end)
            if c is X:
                return X
            if c is U:
                return U
            return self.eval(e[2] if c else e[3], view, this, prev_end)
        if k == "op":
            op = e[1]
            a = self.eval(e[2], view, this, prev_end)
            b = self.eval(e[3], view, this, prev_end)
            if a is X or b is X:
                return X
            if op == "&&":
                return self.and_(a, b)
            if op == "||":
                return self.or_(a, b)
            if a is U or b is U:
                return U
            if op in ("==", "!="):
                eq = (a == b)
                return eq if op == "==" else not eq
            if isinstance(a, tuple):
                a = a[2]
            if isinstance(b, tuple):
                b = b[2]
            return {"+": lambda: a + b, "-": lambda: a - b, "*": lambda: a * b, "<": lambda: a < b,
                    "<=": lambda: a <= b, ">": lambda: a > b, ">=": lambda: a >= b}[op]()
        raise ValueError(e)

    def root_view(self, struct_name, params, data):
        s = self.module.struct(struct_name)
        return StructView(self, s, dict(params), ByteBuf(data))


# ------------------------------------------------------------------ observation
def fmt_value(v):
    if v is U:
        return "-"
    if isinstance(v, bool):
        return "1" if v else "0"
    if isinstance(v, tuple):
        if v[0] == "enum":
            return str(v[2])
        if v[0] == "float":
            return "f%x" % v[1]
    return str(v)


def observe(view, prefix="", out=None, depth=0):
    """Flat list of 'path=H,O,V' observations in the canonical order used by the C++ driver."""
    if out is None:
        out = []
    sdef = view.sdef
    names = []
    for f in sdef.fields:
        if f.type is not None and f.type[0] == "anon":
            names.extend(g.name for g in f.type[1])
        else:
            names.append(f.name)
    for n in names:
        h = view.has(n)
        hs = "U" if h is U else ("T" if h else "F")
        v = view.view_of(n)
        path = prefix + n
        if v.kind == "virtual" and h is not True:
            # documentation hole: Ok()/value of a virtual field whose condition is not true is unspecified
            out.append("%s=%s,*,*" % (path, hs))
        elif v.kind == "virtual" and v.ok() is X:
            out.append("%s=%s,*,*" % (path, hs))
        elif v.kind in ("scalar", "virtual", "param"):
            ok = v.ok()
            out.append("%s=%s,%d,%s" % (path, hs, ok, fmt_value(v.value()) if ok else "-"))
        elif v.kind == "null":
            out.append("%s=%s,0,-" % (path, hs))
        elif v.kind == "array":
            ok = v.ok()
            out.append("%s=%s,%d,#%d" % (path, hs, ok, v.count()))
            for i in range(v.count()):
                el = v.element(i)
                if el.kind == "scalar":
                    eo = el.ok()
                    out.append("%s[%d]=T,%d,%s" % (path, i, eo, fmt_value(el.value()) if eo else "-"))
                elif el.kind == "struct":
                    out.append("%s[%d]=T,%d,{" % (path, i, el.ok()))
                    observe(el, "%s[%d]." % (path, i), out, depth + 1)
        elif v.kind == "struct":
            out.append("%s=%s,%d,{" % (path, hs, v.ok()))
            observe(v, path + ".", out, depth + 1)
    return out


def obs_match(got, want):
    """Compares one observation string with the reference, honouring '*' wildcards in the reference."""
    if got == want:
        return True
    if "*" not in want:
        return False
    gp, gv = got.split("=", 1)
    wp, wv = want.split("=", 1)
    if gp != wp:
        return False
    g, w = gv.split(",", 2), wv.split(",", 2)
    return all(b == "*" or a == b for a, b in zip(g, w))


def type_at(module, struct_name, path):
    """AST type of the field at an observation path like 'f1[0].a' (None if not found)."""
    import re
    s = module.struct(struct_name)
    t = None
    for part in path.split("."):
        name = re.sub(r"\[\d+\]", "", part)
        f = None
        for g in s.all_named_fields():
            if g.name == name:
                f = g
        if f is None:
            return None
        t = f.type
        if t is None:
            return None
        base = t
        if base[0] == "array":
            base = base[1] if "[" in part else base
        if base[0] == "struct":
            s = module.struct(base[1])
        t = base
    return t


def observe_top(view):
    s = view.size()
    head = "%d%d%d:%s" % (view.ok(), view.is_complete(), view.size_known(), "-" if s is U else str(s))
    return head, observe(view)


# ------------------------------------------------------------------ logical equality (C20)
def logical_equal(va, vb):
    """Equality as doc/cpp-reference.md defines Equals(): both views agree on which fields are present and every
    present physical field reads equal (recursively; arrays element by element).  Both views must be Ok."""
    sdef = va.sdef
    for f in sdef.fields:
        members = f.type[1] if (f.type is not None and f.type[0] == "anon") else [f]
        for g in members:
            if g.virtual:
                continue
            ha, hb = va.has(g.name), vb.has(g.name)
            if ha is U or hb is U:
                return None
            if ha != hb:
                return False
            if ha is not True:
                continue
            xa, xb = va.view_of(g.name), vb.view_of(g.name)
            r = _views_equal(xa, xb)
            if r is not True:
                return r
    return True


def _views_equal(xa, xb):
    if xa.kind == "scalar":
        a, b = xa.value(), xb.value()
        if a is U or b is U:
            return None
        if isinstance(a, tuple) and a[0] == "float":
            # IEEE NaN never "reads equal"; whether Equals() should treat identical NaN bits as equal is unspecified
            for v, n in ((a[1], xa.nbits), (b[1], xb.nbits)):
                ebits, mbits = (8, 23) if n == 32 else (11, 52)
                if (v >> mbits) & ((1 << ebits) - 1) == (1 << ebits) - 1 and v & ((1 << mbits) - 1):
                    return None
            if (a[1] << 1) & ((1 << xa.nbits) - 1) == 0 and (b[1] << 1) & ((1 << xb.nbits) - 1) == 0:
                return True         # +0.0 == -0.0
        return a == b
    if xa.kind == "struct":
        return logical_equal(xa, xb)
    if xa.kind == "array":
        if xa.count() != xb.count():
            return False
        for i in range(xa.count()):
            r = _views_equal(xa.element(i), xb.element(i))
            if r is not True:
                return r
        return True
    return None
