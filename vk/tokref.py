"""Reference tokenizer built from the pattern table of doc/grammar.md
(patterns in document order, longest match, ties to the earlier pattern) and a
reference indentation model.  Independent of compiler/front_end/tokenizer.py."""
import re

from . import grammardoc

# every character sequence that ends a line (written out, not taken from str.splitlines)
TERMINATORS = ["\r\n", "\n", "\r", "\v", "\f", "\x1c", "\x1d", "\x1e", "\x85", "\u2028", "\u2029"]


def split_lines(text):
    lines = []
    cur = []
    i = 0
    n = len(text)
    while i < n:
        if text.startswith("\r\n", i):
            lines.append("".join(cur))
            cur = []
            i += 2
            continue
        c = text[i]
        if c in "\n\r\v\f\x1c\x1d\x1e\x85\u2028\u2029":
            lines.append("".join(cur))
            cur = []
        else:
            cur.append(c)
        i += 1
    if cur:
        lines.append("".join(cur))
    return lines


class RefTokenizer(object):
    def __init__(self, table=None):
        if table is None:
            table = grammardoc.read()["tokens"]
        self.table = [(re.compile(p), s) for p, s in table]

    def line(self, line):
        """-> (tokens [(symbol, text, col_start, col_end)], error_offset or None); columns 1-based, end exclusive."""
        out = []
        off = 0
        n = len(line)
        while off < n:
            best_len = 0
            best_sym = None
            for rx, sym in self.table:
                m = rx.match(line, off)
                if m:
                    l = m.end() - off
                    if l > best_len:
                        best_len = l
                        best_sym = sym
            if best_len == 0:
                return None, off
            if best_sym is not None:
                out.append((best_sym, line[off:off + best_len], off + 1, off + best_len + 1))
            off += best_len
        return out, None

    def tokenize(self, text):
        """-> ("ok", [(symbol, text, (l, c, l2, c2))]) or ("error", set of acceptable (message, (l,c,l2,c2)))."""
        toks = []
        stack = [""]
        lines = split_lines(text)
        for ln, line in enumerate(lines, 1):
            lt, err = self.line(line)
            ws = line[:len(line) - len(line.lstrip())]
            content_only_comment = lt is not None and all(t[0] == "Comment" for t in lt)
            errs = set()
            if err is not None:
                errs.add(("Unrecognized token", (ln, err + 1, ln, err + 2)))
                # an indentation error on the same line is an acceptable alternative report
                # (only if the line is not blank/comment-only, which we cannot know without tokens;
                #  use the text up to the error as evidence)
                stripped = line.strip()
                if stripped and not stripped.startswith("#"):
                    if ws != stack[-1] and not ws.startswith(stack[-1]) and ws not in stack:
                        errs.add(("Bad indentation", (ln, 1, ln, len(ws) + 1)))
                return "error", errs
            if content_only_comment:
                for s, t, a, b in lt:
                    toks.append((s, t, (ln, a, ln, b)))
                toks.append(('"\\n"', "\n", (ln, len(line) + 1, ln, len(line) + 1)))
                continue
            if ws == stack[-1]:
                pass
            elif ws.startswith(stack[-1]):
                toks.append(("Indent", ws[len(stack[-1]):], (ln, len(stack[-1]) + 1, ln, len(ws) + 1)))
                stack.append(ws)
            else:
                if ws not in stack:
                    return "error", {("Bad indentation", (ln, 1, ln, len(ws) + 1))}
                while stack[-1] != ws:
                    stack.pop()
                    toks.append(("Dedent", "", (ln, len(ws) + 1, ln, len(ws) + 1)))
            for s, t, a, b in lt:
                toks.append((s, t, (ln, a, ln, b)))
            toks.append(('"\\n"', "\n", (ln, len(line) + 1, ln, len(line) + 1)))
        for _ in range(len(stack) - 1):
            toks.append(("Dedent", "", (len(lines) + 1, 1, len(lines) + 1, 1)))
        return "ok", toks


# ---- prose rules of doc/language-reference.md ("Names", "Numeric Constant Formats")

def prose_number(s):
    """True iff s is a numeric constant by the language reference's prose (+ grammar.md's `_` after 0x/0b)."""
    def groups_ok(body, digits, sizes):
        if not body:
            return False
        if "_" not in body:
            return all(c in digits for c in body)
        if body[0] == "_":
            return False
        parts = body.split("_")
        if any(not p or any(c not in digits for c in p) for p in parts):
            return False
        for g in sizes:
            if 1 <= len(parts[0]) <= g and all(len(p) == g for p in parts[1:]):
                return True
        return False
    if s.startswith("0x"):
        body = s[2:]
        if body.startswith("_"):
            body = body[1:]
            if not body:
                return False
            if "_" not in body:
                # 0x_ followed by one group: at most 8 digits
                return all(c in "0123456789abcdefABCDEF" for c in body) and len(body) <= 8
        return groups_ok(body, "0123456789abcdefABCDEF", (4, 8))
    if s.startswith("0b"):
        body = s[2:]
        if body.startswith("_"):
            body = body[1:]
            if not body:
                return False
            if "_" not in body:
                return all(c in "01" for c in body) and len(body) <= 8
        return groups_ok(body, "01", (4, 8))
    return groups_ok(s, "0123456789", (3,))


def prose_name_class(s):
    """'SnakeWord' / 'ShoutyWord' / 'CamelWord' / None by the prose of the Names section."""
    if not s or not s.isascii():
        return None
    if s[0].islower() and all(c.islower() or c.isdigit() or c == "_" for c in s):
        return "SnakeWord"
    if s[0].isupper():
        if all(c.isupper() or c.isdigit() or c == "_" for c in s):
            # "at least two characters long" + regex: a second capital letter or underscore
            if len(s) >= 2 and any(c.isupper() or c == "_" for c in s[1:]):
                return "ShoutyWord"
            return None
        if all(c.isalpha() or c.isdigit() for c in s) and any(c.islower() for c in s):
            return "CamelWord"
    return None
