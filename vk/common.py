"""Shared helpers: locating the tree under test and driving the real compiler."""
import os
import sys

REPO = os.environ.get("VERIF_REPO", "/repo")
VERIF = os.path.dirname(os.path.dirname(os.path.abspath(__file__)))
if REPO not in sys.path:
    sys.path.insert(0, REPO)
os.environ.setdefault("GOOGLE_EMBOSS_VERIF", "1")
sys.setrecursionlimit(10000)

_imported = {}


def emb():
    """Imports (once) and returns a namespace of the compiler modules."""
    if _imported:
        return _imported["ns"]
    import types
    ns = types.SimpleNamespace()
    from compiler.front_end import glue, tokenizer, parser, module_ir, lr1
    from compiler.front_end import format_emb, synthetics, symbol_resolver
    from compiler.front_end import dependency_checker, type_check, constraints
    from compiler.front_end import expression_bounds, attribute_checker
    from compiler.front_end import write_inference
    from compiler.back_end.cpp import header_generator
    from compiler.util import error, ir_data, ir_data_utils, ir_util
    from compiler.util import parser_types, traverse_ir
    for k, v in list(locals().items()):
        if k not in ("ns", "types"):
            setattr(ns, k, v)
    _imported["ns"] = ns
    return ns


def reader_for(files):
    def rd(name):
        if name in files:
            return files[name], None
        return None, ["file not found: " + name]
    return rd


def clear_caches():
    e = emb()
    e.glue._cached_modules.clear()


def front_end(files, main="m.emb", keep_cache=True):
    """Runs the real front end.  Returns (ir, errors, exception_or_None)."""
    e = emb()
    if not keep_cache:
        # keep the prelude only
        for k in [k for k in e.glue._cached_modules if k[1] != ""]:
            del e.glue._cached_modules[k]
    try:
        ir, dbg, errors = e.glue.parse_emboss_file(main, reader_for(files))
    except (RecursionError, CaseTimeout):
        raise
    except Exception as ex:  # noqa
        return None, None, ex
    return ir, errors, None


def back_end(ir, traits=True):
    e = emb()
    cfg = e.header_generator.Config(include_enum_traits=traits)
    try:
        header, errors = e.header_generator.generate_header(ir, cfg)
    except CaseTimeout:
        raise
    except Exception as ex:  # noqa
        return None, None, ex
    return header, errors, None


def first_error_text(errors):
    if not errors:
        return ""
    m = errors[0][0]
    return "%s:%s:%s: %s" % (m.source_file, m.location.start.line,
                              m.location.start.column, m.message)


def exc_key(ex):
    """crash:<Type>@<innermost compiler/ file>:<function>"""
    import traceback
    tb = traceback.extract_tb(ex.__traceback__)
    where = "?"
    for fr in tb:
        fn = fr.filename
        if "/compiler/" in fn:
            where = "%s:%s" % (fn.split("/compiler/", 1)[1], fr.name)
    return "crash:%s@%s" % (type(ex).__name__, where)


class CaseTimeout(Exception):
    pass


import contextlib
import signal


@contextlib.contextmanager
def watchdog(secs):
    """Inner watchdog on *CPU time* of this process (ITIMER_VIRTUAL), so that
    machine load or page-fault storms cannot fake a non-termination."""
    def _h(signum, frame):
        raise CaseTimeout()
    old = signal.signal(signal.SIGVTALRM, _h)
    signal.setitimer(signal.ITIMER_VIRTUAL, secs)
    try:
        yield
    finally:
        signal.setitimer(signal.ITIMER_VIRTUAL, 0)
        signal.signal(signal.SIGVTALRM, old)


def error_groups(errors):
    """[[(file, (l,c,l,c), severity, message), ...], ...]"""
    out = []
    for g in errors or []:
        gg = []
        for m in g:
            loc = m.location
            gg.append((m.source_file, (loc.start.line, loc.start.column,
                                       loc.end.line, loc.end.column),
                       m.severity, m.message))
        out.append(gg)
    return out
