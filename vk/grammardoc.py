"""Reader for doc/grammar.md written for the checks (independent of
generate_grammar_md.py): productions from the ```shell blocks and the token
pattern table."""
import os
import re
from . import common


def read(path=None):
    path = path or os.path.join(common.REPO, "doc", "grammar.md")
    text = open(path, encoding="utf-8").read()
    blocks = re.findall(r"```shell\n(.*?)\n```", text, re.S)
    prods = []
    order = []
    for block in blocks:
        lhs = None
        cur = None
        for line in block.split("\n"):
            if not line.strip():
                continue
            if not line[0].isspace():
                head, rest = line.split("->", 1)
                if cur is not None:
                    prods.append((lhs, tuple(cur)))
                lhs = head.strip()
                order.append(lhs)
                cur = []
                toks = rest.split()
            else:
                toks = line.split()
                if toks and toks[0] == "|":
                    prods.append((lhs, tuple(cur)))
                    cur = []
                    toks = toks[1:]
            for t in toks:
                if t == "<empty>":
                    continue
                cur.append(t)
        if cur is not None:
            prods.append((lhs, tuple(cur)))
    # token table
    table = []
    m = re.search(r"Pattern\s+\|\s+Symbol\n-+ \| -+\n(.*?)\n\n", text, re.S)
    for line in m.group(1).split("\n"):
        # split on the last " | "
        pat, sym = line.rsplit(" | ", 1)
        pat = pat.strip()
        sym = sym.strip()
        assert pat[0] == "`" and pat[-1] == "`", line
        pat = pat[1:-1].replace("\\|", "|")
        if pat == "||":
            # the generator does not double-escape: the markdown cell `\|\|` is the regex-escaped literal "||"
            pat = r"\|\|"
        if sym.startswith("`"):
            sym = sym[1:-1]
        else:
            sym = None      # *no symbol emitted*
        table.append((pat, sym))
    kw = re.search(r"The following (\d+) keywords are reserved.*?\n\n(.*?)(\n\n|\Z)", text, re.S)
    reserved = re.findall(r"`([^`]+)`", kw.group(2)) if kw else []
    return {"productions": prods, "lhs_order": order, "tokens": table,
            "reserved": reserved, "reserved_count": int(kw.group(1)) if kw else None}
