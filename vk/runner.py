"""Check runner: enumerates a check's cases over a fork pool, applies the
known-findings filter, writes evidence and replay artefacts."""
import argparse
import importlib
import json
import multiprocessing
import os
import random
import shutil
import signal
import sys
import time
import traceback

from . import common, findings

MAX_REPLAYS = 25


CaseTimeout = common.CaseTimeout


def _alarm(signum, frame):
    raise CaseTimeout()


_mod = None


def _init_worker(modname):
    global _mod
    _mod = importlib.import_module(modname)
    signal.signal(signal.SIGALRM, _alarm)


def _run_case(arg):
    idx, case = arg
    timeout = getattr(_mod, "TIMEOUT", 600)
    t0 = time.time()
    signal.alarm(timeout)
    try:
        res = _mod.check_case(case) or {}
    except CaseTimeout:
        res = {"viol": [{"key": "timeout", "msg": "case exceeded %ds watchdog" % timeout}]}
    except Exception as ex:  # noqa
        tb = traceback.extract_tb(ex.__traceback__)
        in_repo = any(fr.filename.startswith(common.REPO + "/") for fr in tb)
        last = tb[-1].filename if tb else ""
        text = "".join(traceback.format_exception(type(ex), ex, ex.__traceback__))
        if in_repo and last.startswith(common.REPO + "/"):
            res = {"viol": [{"key": common.exc_key(ex),
                             "msg": "uncaught exception from code under test",
                             "detail": text[-3000:]}]}
        else:
            res = {"internal": text}
    finally:
        signal.alarm(0)
    res["idx"] = idx
    res["t"] = time.time() - t0
    return res


def _validate_evidence(path):
    """Self-check against the schema using the tooling venv (has jsonschema)."""
    schema = "/root/.vp/EVIDENCE.schema.json"
    vt = shutil.which("python3-vt")
    if not (vt and os.path.exists(schema)):
        return
    import subprocess
    code = ("import json,sys,jsonschema;"
            "jsonschema.validate(json.load(open(sys.argv[1])),json.load(open(sys.argv[2])))")
    r = subprocess.run([vt, "-c", code, path, schema], capture_output=True, text=True)
    if r.returncode != 0:
        print("INTERNAL-ERROR evidence does not validate:\n" + r.stderr[-2000:])
        sys.exit(2)


def main(argv=None):
    ap = argparse.ArgumentParser()
    ap.add_argument("prop")
    ap.add_argument("--tier", default=os.environ.get("VERIF_TIER", "quick"),
                    choices=["quick", "thorough"])
    ap.add_argument("--replay")
    ap.add_argument("--jobs", type=int, default=int(os.environ.get("VERIF_JOBS", "16")))
    ap.add_argument("--limit", type=int, default=0, help="debug: only first N cases")
    args = ap.parse_args(argv)
    prop = args.prop.upper()
    seed = int(os.environ.get("VERIF_SEED", "0") or 0)
    os.environ.setdefault("PYTHONHASHSEED", "0")
    modname = "checks." + prop.lower()
    sys.path.insert(0, common.VERIF)
    mod = importlib.import_module(modname)
    t0 = time.time()

    if args.replay:
        with open(args.replay) as f:
            rep = json.load(f)
        _init_worker(modname)
        if hasattr(mod, "setup"):
            mod.setup(rep.get("tier", "quick"))
        res = _run_case((0, rep["case"]))
        if res.get("internal"):
            print(res["internal"])
            return 2
        viol = res.get("viol", [])
        same = [v for v in viol if v["key"] == rep["violation"]["key"]]
        print(json.dumps({"recorded": rep["violation"], "now": viol[:5]}, indent=1)[:6000])
        if same:
            print("VIOLATION property=%s replay=%s" % (prop, args.replay))
            return 1
        print("replay: violation no longer occurs")
        return 0

    if hasattr(mod, "setup"):
        mod.setup(args.tier)
    cases = list(mod.gen_cases(args.tier))
    if args.limit:
        cases = cases[:args.limit]
    order = list(range(len(cases)))
    random.Random(seed).shuffle(order)   # seed permutes scheduling only
    # determinism self-test: smallest case twice
    results = [None] * len(cases)
    if cases:
        _init_worker(modname)
        a = _run_case((0, cases[0]))
        b = _run_case((0, cases[0]))
        a.pop("t"), b.pop("t")
        if json.dumps(a, sort_keys=True, default=str) != json.dumps(b, sort_keys=True, default=str):
            print("INTERNAL-ERROR nondeterministic case 0")
            return 2
    jobs = max(1, min(args.jobs, len(cases)))
    ctx = multiprocessing.get_context("fork")
    import gc
    gc.collect()
    gc.freeze()
    internal = None
    with ctx.Pool(jobs, initializer=_init_worker, initargs=(modname,)) as pool:
        for res in pool.imap_unordered(_run_case, [(i, cases[i]) for i in order], chunksize=1):
            results[res["idx"]] = res
            if res.get("internal"):
                internal = res["internal"]
                break
    if internal:
        print("INTERNAL-ERROR in check code:\n" + internal)
        return 2

    # aggregate in case order (independent of seed / worker count)
    agg = {"evaluations": 0, "states": 0, "transitions": 0, "traces": 0}
    nt = set()
    stats = {}
    viols = []
    state_set = set()
    for i, res in enumerate(results):
        agg["evaluations"] += res.get("n", 1)
        agg["transitions"] += res.get("transitions", 0)
        agg["traces"] += res.get("traces", 0)
        agg["states"] += res.get("states", 0)
        for s in res.get("state_keys", ()):
            state_set.add(s)
        for k in res.get("nt", ()):
            nt.add(k if isinstance(k, str) else json.dumps(k))
        for k, v in res.get("stats", {}).items():
            if isinstance(v, dict):
                d = stats.setdefault(k, {})
                for kk, vv in v.items():
                    d[kk] = d.get(kk, 0) + vv
            else:
                stats[k] = stats.get(k, 0) + v
        for v in res.get("viol", ()):
            viols.append((i, v))
    extra = {}
    if hasattr(mod, "finish"):
        fin = mod.finish(args.tier, results, cases) or {}
        for v in fin.get("viol", ()):
            viols.append((-1, v))
        extra = fin.get("coverage", {})
    if state_set:
        agg["states"] += len(state_set)

    known = findings.open_keys(prop)
    known_hits = {}
    new = []
    for i, v in viols:
        if v["key"] in known:
            known_hits.setdefault(v["key"], []).append((i, v))
        else:
            new.append((i, v))
    outbase = os.environ.get("VERIF_OUT", common.VERIF)
    repdir = os.path.join(outbase, "replays", prop)
    shutil.rmtree(repdir, ignore_errors=True)
    for key in sorted(known):
        hits = known_hits.get(key, [])
        print("KNOWN-FINDING: property=%s %s -- %s (%s)" % (
            prop, key, known[key]["what"],
            "%d case(s) this run" % len(hits) if hits else "listed; not reached by this tier's enumeration"))
    if new:
        os.makedirs(repdir, exist_ok=True)
    seen_keys = {}
    nrep = 0
    for i, v in new:
        seen_keys[v["key"]] = seen_keys.get(v["key"], 0) + 1
        if seen_keys[v["key"]] > 3 or nrep >= MAX_REPLAYS:
            continue
        path = os.path.join(repdir, "%d.json" % nrep)
        nrep += 1
        with open(path, "w") as f:
            json.dump({"property": prop, "tier": args.tier,
                       "case": cases[i] if i >= 0 else None, "violation": v}, f, indent=1, default=str)
        print("VIOLATION property=%s replay=%s" % (prop, path))
        print("  key=%s %s" % (v["key"], str(v.get("msg", ""))[:300]))
    if new:
        for k, c in sorted(seen_keys.items(), key=lambda kv: -kv[1])[:40]:
            print("  count %6d  %s" % (c, k))
        print("violations: %d new (%d distinct keys), %d known" % (
            len(new), len(seen_keys), sum(len(h) for h in known_hits.values())))

    level = mod.LEVEL
    samples = []
    sample_of = getattr(mod, "sample_of", lambda c: c)
    step = max(1, len(cases) // 3)
    for i in range(0, len(cases), step):
        samples.append(sample_of(cases[i]))
        if len(samples) >= 3:
            break
    cov = {
        "evaluations": agg["evaluations"],
        "distinct_nontrivial": len(nt),
        "rule": mod.RULE,
        "samples": samples,
        "exhaustive": bool(getattr(mod, "EXHAUSTIVE", True)),
        "work_units": len(cases),
        "bounds": mod.bounds(args.tier) if hasattr(mod, "bounds") else {},
        "known_findings_hit": {k: len(v) for k, v in sorted(known_hits.items())},
        "stats": stats,
    }
    if level == "model_checking":
        cov["states"] = agg["states"]
        cov["transitions"] = agg["transitions"]
        cov["traces_validated_against_impl"] = agg["traces"]
    cov.update(extra)
    ev = {
        "property_id": prop, "tier": args.tier, "seed": seed, "level": level,
        "coverage": cov,
        "assumptions": list(getattr(mod, "ASSUMPTIONS", [])),
        "wall_s": round(time.time() - t0, 2),
        "violations": len(new),
    }
    os.makedirs(os.path.join(outbase, "evidence"), exist_ok=True)
    evpath = os.path.join(outbase, "evidence", prop + ".json")
    with open(evpath, "w") as f:
        json.dump(ev, f, indent=1, default=str)
        f.write("\n")
    _validate_evidence(evpath)
    print("%s tier=%s units=%d evaluations=%d nontrivial=%d violations=%d known=%d wall=%.1fs" % (
        prop, args.tier, len(cases), cov["evaluations"], len(nt), len(new),
        sum(len(h) for h in known_hits.values()), time.time() - t0))
    if os.environ.get("VERIF_DEBUG"):
        slow = sorted(((r.get("t", 0), i) for i, r in enumerate(results)), reverse=True)[:8]
        for t, i in slow:
            print("  slow unit %.1fs %s" % (t, json.dumps(cases[i], default=str)[:160]))
    return 1 if new else 0
