import json
import os
from . import common

PATH = os.path.join(common.VERIF, "known_findings.json")


def load():
    if not os.path.exists(PATH):
        return []
    with open(PATH) as f:
        return json.load(f)["findings"]


def open_keys(prop):
    return {f["key"]: f for f in load()
            if f["property"] == prop and f.get("status") == "open"}
