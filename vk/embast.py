"""Ground-truth AST for generated .emb programs, and its pretty-printer.

The compiler only ever sees the printed text; the reference semantics
(refsem.py) only ever sees this AST.

Expressions are tuples:
  ("c", int)  ("b", bool)  ("ev", enum_name, VALUE_NAME)
  ("f", (name, name, ...))      reference to a field / parameter by path
  ("this",)
  ("op", op, a, b)   op in + - * == != < <= > >= && ||
  ("neg", a)  ("max", a, b, ...)  ("?:", c, a, b)  ("present", (path))
  ("next",)   $next
Types are tuples:
  ("UInt", bits) ("Int", bits) ("Bcd", bits) ("Flag",) ("Float", bits)
  ("enum", EnumName, bits)
  ("struct", StructName, (arg exprs...))
  ("array", elem_type, count_expr_or_None)      None = automatic length `[]`
  ("anon", [Field...])                           anonymous `bits:` block
"""


class Enum(object):
    def __init__(self, name, values, is_signed=None, maximum_bits=None):
        self.name = name
        self.values = values          # list of (NAME, int)
        self.is_signed = is_signed
        self.maximum_bits = maximum_bits

    def lookup(self, vname):
        for n, v in self.values:
            if n == vname:
                return v
        raise KeyError(vname)


class Field(object):
    def __init__(self, name, type=None, start=None, size=None, cond=None, requires=None,
                 byte_order=None, text_output=None, expr=None, doc=None, abbrev=None):
        self.name = name
        self.type = type
        self.start = start
        self.size = size
        self.cond = cond
        self.requires = requires
        self.byte_order = byte_order
        self.text_output = text_output
        self.expr = expr              # virtual field: `let name = expr`
        self.doc = doc
        self.abbrev = abbrev

    @property
    def virtual(self):
        return self.expr is not None


class Struct(object):
    def __init__(self, name, kind="struct", params=(), fields=(), requires=None, byte_order=None):
        self.name = name
        self.kind = kind              # "struct" | "bits"
        self.params = list(params)    # [(name, type)]
        self.fields = list(fields)
        self.requires = requires
        self.byte_order = byte_order  # $default on the struct

    def field(self, name):
        for f in self.all_named_fields():
            if f.name == name:
                return f
        raise KeyError(name)

    def all_named_fields(self):
        """Fields addressable by name from this struct: own fields + members of anonymous bits."""
        for f in self.fields:
            if f.type is not None and f.type[0] == "anon":
                for g in f.type[1]:
                    yield g
            else:
                yield f


class Module(object):
    def __init__(self, byte_order="LittleEndian", namespace=None, enums=(), structs=(), imports=(), name="m.emb"):
        self.byte_order = byte_order          # module $default, or None
        self.namespace = namespace
        self.enums = list(enums)
        self.structs = list(structs)
        self.imports = list(imports)          # [(alias, Module)]
        self.name = name
        for st in self.structs:
            st.module = self
        for en in self.enums:
            en.module = self

    def enum(self, name):
        for e in self.enums:
            if e.name == name:
                return e
        for alias, m in self.imports:
            if name.startswith(alias + "."):
                return m.enum(name[len(alias) + 1:])
        raise KeyError(name)

    def struct(self, name):
        for s in self.structs:
            if s.name == name:
                return s
        for alias, m in self.imports:
            if name.startswith(alias + "."):
                return m.struct(name[len(alias) + 1:])
        raise KeyError(name)


# ------------------------------------------------------------------ printing
_PREC = {"||": 1, "&&": 1, "==": 2, "!=": 2, "<": 2, "<=": 2, ">": 2, ">=": 2, "+": 3, "-": 3, "*": 4}


def expr_text(e, top=True):
    k = e[0]
    if k == "c":
        return str(e[1]) if e[1] >= 0 or top else "(%d)" % e[1]
    if k == "b":
        return "true" if e[1] else "false"
    if k == "ev":
        return "%s.%s" % (e[1], e[2])
    if k == "f":
        return ".".join(e[1])
    if k == "this":
        return "this"
    if k == "next":
        return "$next"
    if k == "op":
        s = "%s %s %s" % (expr_text(e[2], False), e[1], expr_text(e[3], False))
        return s if top else "(%s)" % s
    if k == "neg":
        return "-%s" % expr_text(e[1], False) if top else "(-%s)" % expr_text(e[1], False)
    if k == "max":
        return "$max(%s)" % ", ".join(expr_text(a) for a in e[1:])
    if k == "?:":
        s = "%s ? %s : %s" % (expr_text(e[1], False), expr_text(e[2], False), expr_text(e[3], False))
        return s if top else "(%s)" % s
    if k == "present":
        return "$present(%s)" % ".".join(e[1])
    raise ValueError(e)


def type_text(t):
    k = t[0]
    if k in ("UInt", "Int", "Bcd", "Float"):
        return k if t[1] is None else "%s:%d" % (k, t[1])
    if k == "Flag":
        return "Flag"
    if k == "enum":
        return t[1] if t[2] is None else "%s:%d" % (t[1], t[2])
    if k == "struct":
        if t[2]:
            return "%s(%s)" % (t[1], ", ".join(expr_text(a) for a in t[2]))
        return t[1]
    if k == "array":
        return "%s[%s]" % (type_text(t[1]), "" if t[2] is None else expr_text(t[2]))
    raise ValueError(t)


def param_type_text(t):
    return type_text(t)


def field_lines(f, indent):
    out = []
    ind = indent
    if f.cond is not None:
        out.append("%sif %s:" % (ind, expr_text(f.cond)))
        ind += "  "
    if f.virtual:
        out.append("%slet %s = %s" % (ind, f.name, expr_text(f.expr)))
    elif f.type[0] == "anon":
        out.append("%s%s [+%s]  bits:" % (ind, expr_text(f.start), expr_text(f.size)))
        if f.byte_order:
            out.append('%s  [byte_order: "%s"]' % (ind, f.byte_order))
        for g in f.type[1]:
            out.extend(field_lines(g, ind + "  "))
        return out
    else:
        name = f.name + (" (%s)" % f.abbrev if f.abbrev else "")
        out.append("%s%s [+%s]  %s  %s" % (ind, expr_text(f.start), expr_text(f.size), type_text(f.type), name))
    attrs = []
    if f.doc:
        out.append("%s  -- %s" % (ind, f.doc))
    if f.requires is not None:
        attrs.append("[requires: %s]" % expr_text(f.requires))
    if f.byte_order:
        attrs.append('[byte_order: "%s"]' % f.byte_order)
    if f.text_output:
        attrs.append('[text_output: "%s"]' % f.text_output)
    for a in attrs:
        out.append("%s  %s" % (ind, a))
    return out


def struct_lines(s):
    head = "%s %s" % (s.kind, s.name)
    if s.params:
        head += "(%s)" % ", ".join("%s: %s" % (n, param_type_text(t)) for n, t in s.params)
    out = [head + ":"]
    if s.byte_order:
        out.append('  [$default byte_order: "%s"]' % s.byte_order)
    if s.requires is not None:
        out.append("  [requires: %s]" % expr_text(s.requires))
    for f in s.fields:
        out.extend(field_lines(f, "  "))
    return out


def enum_lines(e):
    out = ["enum %s:" % e.name]
    if e.is_signed is not None:
        out.append("  [is_signed: %s]" % ("true" if e.is_signed else "false"))
    if e.maximum_bits is not None:
        out.append("  [maximum_bits: %d]" % e.maximum_bits)
    if getattr(e, "enum_case", None):
        out.append('  [(cpp) $default enum_case: "%s"]' % e.enum_case)
    for n, v in e.values:
        out.append("  %s = %d" % (n, v))
    return out


def module_text(m):
    out = []
    for alias, im in m.imports:
        out.append('import "%s" as %s' % (im.name, alias))
    if m.byte_order:
        out.append('[$default byte_order: "%s"]' % m.byte_order)
    if m.namespace:
        out.append('[(cpp) namespace: "%s"]' % m.namespace)
    for e in m.enums:
        out.extend(enum_lines(e))
    for s in m.structs:
        out.extend(struct_lines(s))
    return "\n".join(out) + "\n"


def files_of(m):
    files = {m.name: module_text(m)}
    for alias, im in m.imports:
        files.update(files_of(im))
    return files
