"""Small-grammar oracles: truncated language fixpoints, derivation counts
(saturating at 2), viable prefixes, and a plain canonical LR(1) construction."""
import itertools


class Cfg(object):
    def __init__(self, productions, start):
        self.prods = [(l, tuple(r)) for l, r in productions]
        self.start = start
        self.nts = {l for l, _ in self.prods}
        syms = {start}
        for l, r in self.prods:
            syms.add(l)
            syms.update(r)
        self.terminals = sorted(s for s in syms if s not in self.nts)
        prod = set()
        changed = True
        while changed:
            changed = False
            for l, r in self.prods:
                if l not in prod and all(s not in self.nts or s in prod for s in r):
                    prod.add(l)
                    changed = True
        self.productive = prod
        reach = {start}
        todo = [start]
        while todo:
            n = todo.pop()
            for l, r in self.prods:
                if l == n:
                    for s in r:
                        if s in self.nts and s not in reach:
                            reach.add(s)
                            todo.append(s)
        self.reachable = reach
        self.reduced = start in self.nts and all(n in prod for n in reach)

    def counts(self, L):
        """dict symbol -> dict string(tuple) -> derivation count saturating at 2, strings of length <= L."""
        cnt = {n: {} for n in self.nts}
        for t in self.terminals:
            cnt[t] = {(t,): 1}
        changed = True
        while changed:
            changed = False
            new = {n: {} for n in self.nts}
            for l, r in self.prods:
                acc = {(): 1}
                for s in r:
                    nxt = {}
                    cs = cnt[s]
                    for w1, c1 in acc.items():
                        for w2, c2 in cs.items():
                            if len(w1) + len(w2) <= L:
                                w = w1 + w2
                                nxt[w] = min(2, nxt.get(w, 0) + c1 * c2)
                    acc = nxt
                    if not acc:
                        break
                d = new[l]
                for w, c in acc.items():
                    d[w] = min(2, d.get(w, 0) + c)
            for n in self.nts:
                if new[n] != cnt[n]:
                    changed = True
                cnt[n] = new[n]
        return cnt

    def prefixes(self, cnt, L):
        """Set of strings of length <= L that are prefixes of some sentence of start."""
        pref = {n: set() for n in self.nts}
        for t in self.terminals:
            pref[t] = {(), (t,)}
        productive = self.productive

        def ok(sym):
            return sym not in self.nts or sym in productive

        changed = True
        while changed:
            changed = False
            for l, r in self.prods:
                if not all(ok(s) for s in r):
                    continue
                add = set()
                heads = {()}
                add.add(())
                for i, s in enumerate(r):
                    for h in heads:
                        for q in pref[s]:
                            if len(h) + len(q) <= L:
                                add.add(h + q)
                    nh = set()
                    for h in heads:
                        for w in cnt[s]:
                            if len(h) + len(w) <= L:
                                nh.add(h + w)
                    heads = nh
                    if not heads:
                        break
                if not add <= pref[l]:
                    pref[l] |= add
                    changed = True
        if self.start in self.nts:
            return pref[self.start] if self.start in productive else set()
        return pref[self.start]


def lr1_reference(productions, start):
    """Plain canonical LR(1): returns (n_states, conflict_free)."""
    prods = [("S'", (start,))] + [(l, tuple(r)) for l, r in productions]
    nts = {l for l, _ in prods}
    by = {}
    for i, (l, r) in enumerate(prods):
        by.setdefault(l, []).append(i)
    first = {}
    syms = set()
    for l, r in prods:
        syms.add(l)
        syms.update(r)
    for s in syms:
        first[s] = set() if s in nts else {s}
    nullable = set()
    changed = True
    while changed:
        changed = False
        for l, r in prods:
            allnull = True
            for s in r:
                add = first[s] - first[l]
                if add:
                    first[l] |= add
                    changed = True
                if s not in nullable:
                    allnull = False
                    break
            if allnull and l not in nullable:
                nullable.add(l)
                changed = True

    def first_of(seq, la):
        out = set()
        for s in seq:
            out |= first[s]
            if s not in nullable:
                return out
        out.add(la)
        return out

    def closure(items):
        items = set(items)
        todo = list(items)
        while todo:
            p, d, la = todo.pop()
            r = prods[p][1]
            if d < len(r) and r[d] in nts:
                for t in first_of(r[d + 1:], la):
                    for q in by[r[d]]:
                        it = (q, 0, t)
                        if it not in items:
                            items.add(it)
                            todo.append(it)
        return frozenset(items)

    start_set = closure({(0, 0, "$")})
    states = {start_set: 0}
    order = [start_set]
    ok = True
    i = 0
    while i < len(order):
        st = order[i]
        i += 1
        moves = {}
        acts = {}
        for (p, d, la) in st:
            r = prods[p][1]
            if d < len(r):
                moves.setdefault(r[d], set()).add((p, d + 1, la))
                if r[d] not in nts:
                    a = ("s",)
                    if acts.setdefault(r[d], a) != a:
                        ok = False
            else:
                a = ("acc",) if p == 0 else ("r", p)
                if acts.setdefault(la, a) != a:
                    ok = False
        for sym, kern in moves.items():
            c = closure(kern)
            if c not in states:
                states[c] = len(order)
                order.append(c)
    return len(order), ok
