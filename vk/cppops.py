"""Driver sections that exercise the whole checked API (C04), text round trips (C06)
and copy/equals (C20) on EmbSpace programs.  Builds on cppdrv's enumeration."""
from . import cppdrv

OPS_PRELUDE = r'''
#include <vector>
#include <utility>
namespace vk {
// candidate values for writes: small, boundary, and just outside common ranges
static const long long WVALS[] = {0, 1, -1, 2, 7, 9, 10, 99, 100, 127, 128, 255, 256, -128, -129, 32767, 65535, 65536,
                                  2147483647LL, -2147483647LL - 1, 4294967295LL, 4294967296LL};
template <class X> static auto tryw_impl(X x, int) -> decltype(x.TryToWrite(std::declval<typename std::decay<decltype(x.Read())>::type>()), void()) {
  typedef typename std::decay<decltype(x.Read())>::type VT;
  typedef typename Und<VT>::type R;
  for (unsigned i = 0; i < sizeof(WVALS) / sizeof(WVALS[0]); ++i) {
    long long c = WVALS[i];
    // only values representable in the parameter type are passed (no implicit narrowing at the call site)
    if (std::is_same<R, bool>::value) { if (c != 0 && c != 1) continue; }
    else if (std::is_floating_point<R>::value) { }
    else if (std::is_signed<R>::value) { if (sizeof(R) < 8 && (c < -(1LL << (sizeof(R) * 8 - 1)) || c > (1LL << (sizeof(R) * 8 - 1)) - 1)) continue; }
    else { if (c < 0 || (sizeof(R) < 8 && c > (long long)((1ULL << (sizeof(R) * 8)) - 1))) continue; }
    VT v = static_cast<VT>(static_cast<R>(c));
    bool could = x.CouldWriteValue(v);
    bool wrote = x.TryToWrite(v);
    if (wrote && !could) std::abort();
    if (wrote) { if (!x.Ok()) { std::fprintf(stderr, "VK: field not Ok after successful write\n"); std::abort(); } (void)x.Read(); }
  }
}
template <class X> static void tryw_impl(X, long) {}
template <class X> static void tryw(X x) { tryw_impl(x, 0); }
template <class X> static void readit(const X &x, char h) { if (x.Ok() && h == 'T') (void)x.Read(); }
// scalar views copy from views of the same kind: TryToCopyFrom must fail (not trip a check) when the source is not Ok,
// and the three copy methods must at least be instantiable
template <class X> static auto selfcopy_impl(X x, int) -> decltype(x.TryToCopyFrom(x), void()) {
  bool ok = x.Ok();
  bool r = x.TryToCopyFrom(x);
  if (r && !ok) { std::fprintf(stderr, "VK: TryToCopyFrom succeeded from a source that is not Ok\n"); std::abort(); }
  if (ok) { x.CopyFrom(x); x.UncheckedCopyFrom(x); if (!x.Ok()) { std::fprintf(stderr, "VK: field not Ok after copying from itself\n"); std::abort(); } }
}
template <class X> static void selfcopy_impl(X, long) {}
template <class X> static void selfcopy(X x) { selfcopy_impl(x, 0); }
// an element at an index >= ElementCount() lies outside the array's extent: it must not be usable, and no write may succeed
template <class X> static auto past_impl(X x, int) -> decltype(x.TryToWrite(std::declval<typename std::decay<decltype(x.Read())>::type>()), void()) {
  typedef typename std::decay<decltype(x.Read())>::type VT;
  typedef typename Und<VT>::type R;
  if (x.Ok() || x.IsComplete()) { std::fprintf(stderr, "VK: array element past ElementCount() reports Ok/IsComplete\n"); std::abort(); }
  VT v = static_cast<VT>(static_cast<R>(0));
  VT w = static_cast<VT>(static_cast<R>(1));
  if (x.TryToWrite(v) || x.TryToWrite(w)) { std::fprintf(stderr, "VK: write to an array element past ElementCount() succeeded\n"); std::abort(); }
}
template <class X> static void past_impl(X x, long) {
  if (x.Ok()) { std::fprintf(stderr, "VK: array element past ElementCount() reports Ok\n"); std::abort(); }
}
template <class X> static void past(X x) { past_impl(x, 0); }
}  // namespace vk
'''


def gen_ops(module):
    """ops_<S>(view): every checked call on every field, recursively (writes included)."""
    out = []
    mods = [(None, module)] + [(a, m) for a, m in module.imports]
    for alias, m in mods:
        for s in m.structs:
            out.append("template <class V> static void ops_%s%s(V v);" % ((alias + "_") if alias else "", s.name))
    for alias, m in mods:
        for s in m.structs:
            fn = "ops_%s%s" % ((alias + "_") if alias else "", s.name)
            body = ["template <class V> static void %s(V v) {" % fn,
                    "  (void)v.Ok(); (void)v.IsComplete(); if (v.SizeIsKnown()) (void)v.SizeIn%s();" % ("Bytes" if s.kind == "struct" else "Bits")]
            for f in s.all_named_fields():
                n = f.name
                t = f.type
                body.append("  { char h = vk::hch(v.has_%s());" % n)
                if f.virtual or t[0] in ("UInt", "Int", "Bcd", "Flag", "Float", "enum"):
                    body.append("    auto x = v.%s(); vk::readit(x, h); vk::selfcopy(x); vk::tryw(x); }" % n)
                elif t[0] == "struct":
                    body.append("    auto s = v.%s(); (void)h; %s(s); }" % (n, cppdrv._obs_name(module, m, alias, t[1]).replace("obs_", "ops_")))
                elif t[0] == "array":
                    in_bits = s.kind == "bits" or not any(f is g for g in s.fields)
                    body.append("    auto a = v.%s(); (void)h; (void)a.Ok(); (void)a.IsComplete(); (void)a.SizeIn%s();" % (n, "Bits" if in_bits else "Bytes"))
                    body.append("    for (size_t i = 0; i < a.ElementCount(); ++i) {")
                    if t[1][0] == "struct":
                        body.append("      %s(a[i]);" % cppdrv._obs_name(module, m, alias, t[1][1]).replace("obs_", "ops_"))
                    else:
                        body.append("      auto e = a[i]; vk::readit(e, 'T'); vk::selfcopy(e); vk::tryw(e);")
                    body.append("    }")
                    body.append("    for (size_t i = a.ElementCount(); i < a.ElementCount() + 3; ++i) vk::past(a[i]);")
                    body.append("    }")
            body.append("}")
            out.extend(body)
    return "\n".join(out)


MALFORMED = ["", "{", "}", "{ }", "{ f0: }", "{ f0: 99999999999999999999999999 }", "{ f0: 0x }", "{ f0: -1 }", "{ f0: 0b102 }",
             "{ nosuchfield: 1 }", "{ f0: 1, f0: 2 }", "{ f0: 1", "{ f1: { } }", "{ f1: { 1, 2, 3, 4, 5, 6, 7, 8, 9 } }",
             "{ v: 5 }", "{ tag: 9 }", "{ f0: 1 # comment\n }", "{ f0: true }", "{ f0: KA }", "{ f0 : 1 , }", "{f0:1}"]


def ops_section(struct, params_args, text=True, copy=True):
    """C++ statements run for every (params, buffer) inside cppdrv.gen_main's loop; `p`, `len`, `view` are in scope."""
    mk = "%s::Make%sView(%s" % ("@NS@", struct.name, params_args)
    lines = []
    lines.append("        { std::vector<unsigned char> w(p, p + len); unsigned char *wp = (unsigned char *)std::malloc(len ? len : 1); if (len) std::memcpy(wp, p, len);")
    lines.append("          auto wv = %swp, (size_t)len); ops_%s(wv);" % (mk, struct.name))
    if text:
        lines.append("          std::string t1 = ::emboss::WriteToString(view, ::emboss::TextOutputOptions().WithAllowPartialOutput(true));")
        lines.append("          std::string t2 = ::emboss::WriteToString(view, ::emboss::MultilineText().WithAllowPartialOutput(true).WithComments(true).WithDigitGrouping(true).WithNumericBase(16));")
        lines.append("          std::string t4 = ::emboss::WriteToString(view, ::emboss::TextOutputOptions().WithAllowPartialOutput(true).WithDigitGrouping(true).WithNumericBase(2));")
        lines.append("          std::string t5 = ::emboss::WriteToString(view, ::emboss::MultilineText().WithAllowPartialOutput(true).WithDigitGrouping(true).WithNumericBase(10));")
        lines.append("          (void)::emboss::UpdateFromText(wv, t1); (void)::emboss::UpdateFromText(wv, t2); (void)::emboss::UpdateFromText(wv, t4); (void)::emboss::UpdateFromText(wv, t5);")
        lines.append("          if (view.Ok()) { std::string t3 = ::emboss::WriteToString(view); (void)::emboss::UpdateFromText(wv, t3); }")
        lines.append("          for (unsigned mi = 0; mi < sizeof(MALFORMED) / sizeof(MALFORMED[0]); ++mi) (void)::emboss::UpdateFromText(wv, std::string(MALFORMED[mi]));")
    if copy:
        lines.append("          if (g_prev) { auto pv = %sstatic_cast<const unsigned char *>(g_prev), g_prev_len);" % mk)
        lines.append("            std::memcpy(wp, p, len); (void)wv.TryToCopyFrom(pv); if (wv.Ok() && pv.Ok()) { (void)wv.Equals(pv); (void)pv.Equals(wv); } }")
        lines.append("          if ((g_count++ & 3) == 0) { std::free(g_prev); g_prev = (unsigned char *)std::malloc(len ? len : 1); if (len) std::memcpy(g_prev, p, len); g_prev_len = len; }")
    # misaligned bases and aligned views (every 8th buffer)
    lines.append("          if ((g_count & 7) == 1) { for (int k = 1; k < 8; ++k) { unsigned char *mb = (unsigned char *)std::malloc(len + k); if (len) std::memcpy(mb + k, p, len);")
    lines.append("              auto mv = %smb + k, (size_t)len); ops_%s(mv); std::free(mb); }" % (mk, struct.name))
    lines.append("            auto av = @NS@::MakeAligned%sView<unsigned char, 8>(%swp, (size_t)len); std::memcpy(wp, p, len); ops_%s(av); }" % (
        struct.name, params_args, struct.name))
    lines.append("          std::free(wp); }")
    return "\n".join(lines)


def ops_decls():
    rows = ",\n  ".join('"%s"' % m.replace("\\", "\\\\").replace('"', '\\"').replace("\n", "\\n") for m in MALFORMED)
    return ("static const char *MALFORMED[] = {\n  %s\n};\n"
            "static unsigned char *g_prev = 0; static size_t g_prev_len = 0; static unsigned long g_count = 0;\n" % rows)
