"""Generators for the scalar layout checks C02 (reads) and C03 (writes):
an .emb with every (offset, width) field of one scalar kind in a container of c
bits (or every byte offset/size in a struct), and a C++ driver that compares
every read / write with cpp/ref_bits.h."""
import os

from . import common

KINDS = ["UInt", "Int", "Bcd", "UEnum", "SEnum", "Flag", "Float"]


def fields_for(kind, c):
    out = []
    for o in range(c):
        for w in range(1, c - o + 1):
            if kind == "Flag" and w != 1:
                continue
            if kind == "Float" and w not in (32, 64):
                continue
            out.append((o, w))
    return out


def emb_bits(kind, c, order):
    typ = {"UInt": "UInt", "Int": "Int", "Bcd": "Bcd", "UEnum": "Ue", "SEnum": "Se", "Flag": "Flag", "Float": "Float"}[kind]
    lines = []
    if order != "Null":
        lines.append('[$default byte_order: "%s"]' % order)
    lines += ["enum Ue:", "  UA = 0", "  UB = 1", "enum Se:", "  SA = -1", "  SB = 0", "bits Bb:"]
    for o, w in fields_for(kind, c):
        lines.append("  %d [+%d]  %s  f_%d_%d" % (o, w, typ, o, w))
    lines += ["struct Ss:", "  0 [+%d]  Bb  b" % (c // 8)]
    return "\n".join(lines) + "\n"


def byte_fields(kind):
    out = []
    for o in range(0, 9):
        for n in range(1, 9):
            if kind == "Float" and n not in (4, 8):
                continue
            if kind == "Flag":
                continue
            out.append((o, n))
    return out


def emb_bytes(kind, order):
    typ = {"UInt": "UInt", "Int": "Int", "Bcd": "Bcd", "UEnum": "Ue", "SEnum": "Se", "Float": "Float"}[kind]
    lines = ['[$default byte_order: "%s"]' % order, "enum Ue:", "  UA = 0", "  UB = 1", "enum Se:", "  SA = -1", "  SB = 0",
             "struct Ss:"]
    other = "BigEndian" if order == "LittleEndian" else "LittleEndian"
    for o, n in byte_fields(kind):
        lines.append("  %d [+%d]  %s  f_%d_%d" % (o, n, typ, o, n))
    # overlays of the same bytes with the opposite byte order (same type, size and offset as the field above)
    for o, n in byte_fields(kind):
        if n > 1 and o in (0, 1, 4):
            lines.append("  %d [+%d]  %s  g_%d_%d" % (o, n, typ, o, n))
            lines.append('    [byte_order: "%s"]' % other)
    return "\n".join(lines) + "\n"


DRIVER = r'''
#include <cstdio>
#include <cstdlib>
#include <cstring>
#include <cstdint>
#include <string>
#include <type_traits>
#include <vector>
#include <utility>
#include <map>
#include "prog.emb.h"
#include "ref_bits.h"
using namespace refbits;
namespace G = ::emboss_generated_code;

enum Kind { KUInt, KInt, KBcd, KUEnum, KSEnum, KFlag, KFloat };
static const Kind KIND = K@KIND@;
static const int NB = @NB@;            // bytes of the structure
static const Order ORD = @ORD@;
static const bool BYTES_MODE = @BYTES@;   // fields are (byte offset, byte size) in a struct
static unsigned long long g_reads = 0, g_writes = 0, g_mism = 0, g_states = 0;
static int g_printed = 0;

static void hexs(std::string &o, const unsigned char *p, int n) {
  static const char *d = "0123456789abcdef";
  for (int i = 0; i < n; ++i) { o += d[p[i] >> 4]; o += d[p[i] & 15]; }
}
static std::string i128s(i128 v) {
  if (v == 0) return "0";
  bool neg = v < 0; u128 u = neg ? (u128)(-(v + 1)) + 1 : (u128)v;
  std::string s; while (u) { s.insert(s.begin(), (char)('0' + (int)(u % 10))); u /= 10; }
  return neg ? "-" + s : s;
}
static void report(const char *what, const char *name, const unsigned char *buf, const std::string &got, const std::string &want) {
  ++g_mism;
  static std::map<std::string, int> per_kind;
  if (per_kind[what]++ < 12 && g_printed++ < 200) {
    std::string h; hexs(h, buf, NB);
    std::printf("MISMATCH %s %s buf=%s got=%s want=%s\n", what, name, h.c_str(), got.c_str(), want.c_str());
  }
}
template <class T, bool E = std::is_enum<T>::value> struct Und { typedef T type; };
template <class T> struct Und<T, true> { typedef typename std::underlying_type<T>::type type; };
template <class T> static i128 to_i128(T v) {
  typedef typename Und<T>::type R;
  R r = static_cast<R>(v);
  if (std::is_floating_point<R>::value) {
    if (sizeof(R) == 4) { std::uint32_t u; std::memcpy(&u, &r, 4); return (i128)u; }
    std::uint64_t u; std::memcpy(&u, &r, 8); return (i128)u;
  }
  if (std::is_same<R, bool>::value) return r ? 1 : 0;
  if (std::is_signed<R>::value) return (i128)(long long)r;
  return (i128)(unsigned long long)r;
}
// field bits as the reference sees them
static Order g_ord = ORD;      // byte order of the field under test (overlay fields use the opposite one)
static u128 field_raw(const unsigned char *buf, int o, int w) {
  if (BYTES_MODE) return get_bits(buf + o, w, g_ord, 0, w * 8);
  return get_bits(buf, NB, g_ord, o, w);
}
static int field_bits(int w) { return BYTES_MODE ? w * 8 : w; }
static void field_put(unsigned char *buf, int o, int w, u128 raw) {
  if (BYTES_MODE) put_bits(buf + o, w, g_ord, 0, w * 8, raw);
  else put_bits(buf, NB, g_ord, o, w, raw);
}
struct Exp { bool ok; i128 value; };
static Exp expect(const unsigned char *buf, int o, int w) {
  u128 raw = field_raw(buf, o, w);
  int n = field_bits(w);
  Exp e; e.ok = true; e.value = 0;
  switch (KIND) {
    case KUInt: case KUEnum: case KFlag: case KFloat: e.value = (i128)raw; break;
    case KInt: case KSEnum: e.value = decode_int(raw, n); break;
    case KBcd: { u128 v = 0; e.ok = decode_bcd(raw, n, &v); e.value = (i128)v; break; }
  }
  return e;
}
struct Tally { bool seen; i128 first; bool varied; };

template <class F> static void check_read(const F &f, const unsigned char *buf, int o, int w, const char *name, Tally &t) {
  typedef typename std::decay<decltype(std::declval<const F &>().Read())>::type VT;
  typedef typename Und<VT>::type R;
  static_assert(std::is_same<R, bool>::value || std::is_floating_point<R>::value || sizeof(R) * 8 >= 1, "");
  Exp e = expect(buf, o, w);
  bool ok = f.Ok();
  ++g_reads;
  if (ok != e.ok) { report("ok", name, buf, ok ? "1" : "0", e.ok ? "1" : "0"); return; }
  if (!ok) return;
  i128 got = to_i128(f.Read());
  if (got != e.value) { report("read", name, buf, i128s(got), i128s(e.value)); return; }
  if (!t.seen) { t.seen = true; t.first = got; } else if (got != t.first) t.varied = true;
}

// ---- writes
static bool representable(int n, i128 v) {
  switch (KIND) {
    case KUInt: case KUEnum: return v >= 0 && (u128)v < pow2(n);
    case KInt: case KSEnum: return v >= -(i128)pow2(n - 1) && v < (i128)pow2(n - 1);
    case KBcd: return v >= 0 && (u128)v <= bcd_max(n);
    case KFlag: return v == 0 || v == 1;
    case KFloat: return true;
  }
  return false;
}
static u128 raw_of(int n, i128 v) {
  switch (KIND) {
    case KBcd: return encode_bcd((u128)v, n);
    case KInt: case KSEnum: return v >= 0 ? (u128)v : (u128)(v + (i128)pow2(n));
    default: return (u128)v;
  }
}
template <class VT, bool IsF = std::is_floating_point<VT>::value> struct FromRaw {
  static VT make(i128 v) { typedef typename Und<VT>::type R; return static_cast<VT>(static_cast<R>((long long)v)); }
  static VT makeu(i128 v) { typedef typename Und<VT>::type R; return static_cast<VT>(static_cast<R>((unsigned long long)v)); }
  static bool fits(i128 v) {
    typedef typename Und<VT>::type R;
    if (std::is_same<R, bool>::value) return v == 0 || v == 1;
    if (std::is_signed<R>::value) return v >= -(i128)pow2(sizeof(R) * 8 - 1) && v < (i128)pow2(sizeof(R) * 8 - 1);
    return v >= 0 && (u128)v < pow2(sizeof(R) * 8);
  }
};
template <class VT> struct FromRaw<VT, true> {
  static VT make(i128 v) { VT r; if (sizeof(VT) == 4) { std::uint32_t u = (std::uint32_t)v; std::memcpy(&r, &u, 4); } else { std::uint64_t u = (std::uint64_t)v; std::memcpy(&r, &u, 8); } return r; }
  static VT makeu(i128 v) { return make(v); }
  static bool fits(i128 v) { return v >= 0 && (u128)v < pow2(sizeof(VT) * 8); }
};

template <class F, bool IsIntKind> struct Carrier;
template <class F> struct Carrier<F, true> {
  // UInt/Int/Bcd views take any integer type: candidates are passed as int64_t (carrier 1) and uint64_t (carrier 2)
  static bool apply(F &f, i128 cand, int carrier, bool &could, bool &wrote) {
    if (carrier == 1) {
      if (cand < -(i128)pow2(63) || cand >= (i128)pow2(63)) return false;
      long long x = (long long)cand; could = f.CouldWriteValue(x); wrote = f.TryToWrite(x); return true;
    }
    if (carrier == 2) {
      if (cand < 0 || (u128)cand >= pow2(64)) return false;
      unsigned long long x = (unsigned long long)cand; could = f.CouldWriteValue(x); wrote = f.TryToWrite(x); return true;
    }
    return false;
  }
};
template <class F> struct Carrier<F, false> {
  // Bcd/enum/Flag/Float: the documented signature takes ValueType
  static bool apply(F &f, i128 cand, int carrier, bool &could, bool &wrote) {
    typedef typename std::decay<decltype(std::declval<const F &>().Read())>::type VT;
    if (carrier != 0) return false;
    if (!FromRaw<VT>::fits(cand)) return false;
    VT x = cand < 0 ? FromRaw<VT>::make(cand) : FromRaw<VT>::makeu(cand);
    could = f.CouldWriteValue(x); wrote = f.TryToWrite(x); return true;
  }
};

template <class F> static void check_write(F f, unsigned char *buf, int len, int o, int w, i128 cand, int carrier, const char *name) {
  typedef typename std::decay<decltype(std::declval<const F &>().Read())>::type VT;
  int n = field_bits(w);
  unsigned char before[32]; std::memcpy(before, buf, NB);
  bool rep = representable(n, cand);
  bool could = false, wrote = false;
  bool present = BYTES_MODE ? (o + w <= len) : (len >= NB);
  if (!Carrier<F, (KIND == KUInt || KIND == KInt || KIND == KBcd)>::apply(f, cand, carrier, could, wrote)) return;
  ++g_writes;
  char tag[64]; std::snprintf(tag, sizeof tag, "c%d", carrier);
  if (could != rep) { report("could-write", name, before, (could ? "1 v=" : "0 v=") + i128s(cand), rep ? "1" : "0"); return; }
  bool want_wrote = rep && present;
  if (wrote != want_wrote) { report("try-to-write", name, before, (wrote ? "1 v=" : "0 v=") + i128s(cand), want_wrote ? "1" : "0"); return; }
  unsigned char want[32]; std::memcpy(want, before, NB);
  if (wrote) field_put(want, o, w, raw_of(n, cand));
  if (std::memcmp(want, buf, NB) != 0) {
    std::string g, x; hexs(g, buf, NB); hexs(x, want, NB);
    report(wrote ? "write-touched-other-bits-or-wrong-value" : "failed-write-changed-buffer", name, before, g + " v=" + i128s(cand), x);
    return;
  }
  if (wrote) {
    i128 back = to_i128(f.Read());
    i128 wantv = (KIND == KFloat) ? cand : cand;
    if (!f.Ok() || back != wantv) { report("read-back", name, before, i128s(back), i128s(wantv)); return; }
  }
}

@FIELD_FUNCS@

struct Entry { int o, w; const char *name; void (*rd)(const unsigned char *, int, Tally &); void (*wr)(unsigned char *, int, i128, int); int flip; };
static Entry TABLE[] = {
@TABLE@
};
static const int NF = sizeof(TABLE) / sizeof(TABLE[0]);
static Tally TALLY[sizeof(TABLE) / sizeof(TABLE[0])];

static void patterns(int n, std::vector<u128> &out) {
  out.clear();
  if (n <= 12) { for (u128 v = 0; v < pow2(n); ++v) out.push_back(v); return; }
  u128 full = pow2(n) - 1;
  u128 alt = 0; for (int i = 0; i < n; i += 2) alt = alt + pow2(i);
  u128 base[] = {0, 1, pow2(n - 1) - 1, pow2(n - 1), full - 1, full, alt, full - alt};
  for (unsigned i = 0; i < sizeof(base) / sizeof(base[0]); ++i) out.push_back(base[i]);
  for (int i = 0; i < n; ++i) { out.push_back(pow2(i)); out.push_back(full - pow2(i)); }
}
static void bcd_patterns(int n, std::vector<u128> &out) {
  // every nibble in turn takes {0, 9, 10, 15} while the others hold 9 (or the largest valid partial nibble)
  int nn = (n + 3) / 4;
  u128 nines = 0;
  for (int k = 0; k < nn; ++k) {
    int nb = (n - 4 * k) < 4 ? (n - 4 * k) : 4;
    unsigned top = nb == 4 ? 9 : ((1u << nb) - 1 > 9 ? 9 : (1u << nb) - 1);
    nines = nines + (u128)top * pow2(4 * k);
  }
  for (int k = 0; k < nn; ++k) {
    int nb = (n - 4 * k) < 4 ? (n - 4 * k) : 4;
    unsigned vals[] = {0, 9, 10, 15, 8};
    for (unsigned j = 0; j < 5; ++j) {
      if (vals[j] >= (1u << nb)) continue;
      u128 cur = (nines / pow2(4 * k)) % 16;
      out.push_back(nines - cur * pow2(4 * k) + (u128)vals[j] * pow2(4 * k));
    }
  }
}
static void candidates(int n, std::vector<i128> &out) {
  out.clear();
  i128 lo, hi;
  switch (KIND) {
    case KInt: case KSEnum: lo = -(i128)pow2(n - 1); hi = (i128)pow2(n - 1) - 1; break;
    case KBcd: lo = 0; hi = (i128)bcd_max(n); break;
    default: lo = 0; hi = (i128)pow2(n) - 1; break;
  }
  if (n <= 8) { for (i128 v = lo - 2; v <= hi + 2; ++v) out.push_back(v); out.push_back((i128)pow2(n)); out.push_back(-(i128)pow2(n)); }
  else {
    i128 c[] = {lo - 1, lo, lo + 1, -1, 0, 1, 2, hi - 1, hi, hi + 1, (i128)pow2(n), -(i128)pow2(n), (i128)pow2(n - 1),
                (i128)pow2(63) - 1, -(i128)pow2(63), (i128)pow2(63), (i128)pow2(64) - 1, 99, 100, 255, 256, 65535, 65536};
    for (unsigned i = 0; i < sizeof(c) / sizeof(c[0]); ++i) out.push_back(c[i]);
  }
  if (KIND == KBcd) { i128 extra[] = {9, 10, 19, 99, 100, 999, 1000, 9999, 10000}; for (unsigned i = 0; i < 9; ++i) out.push_back(extra[i]); }
}

int main(int argc, char **argv) {
  bool write_mode = argc > 1 && std::strcmp(argv[1], "write") == 0;
  static char obuf[1 << 16]; setvbuf(stdout, obuf, _IOFBF, sizeof obuf);
  // buffers live inside a larger allocation so that the structure can sit at any alignment 0..7
  unsigned char *arena = (unsigned char *)std::malloc(64);
  unsigned char *aligned = arena + (16 - ((std::uintptr_t)arena % 16)) % 16;
  std::vector<u128> pats; std::vector<i128> cands;
  const unsigned char fills[3] = {0x00, 0xFF, 0x5A};
  if (!write_mode) {
    if (NB <= 2 && !BYTES_MODE) {
      for (unsigned long content = 0; content < (1ul << (8 * NB)); ++content) {
        unsigned char *buf = aligned;
        for (int i = 0; i < NB; ++i) buf[i] = (unsigned char)(content >> (8 * i));
        for (int i = 0; i < NF; ++i) { g_ord = TABLE[i].flip ? (ORD == kLE ? kBE : kLE) : ORD; TABLE[i].rd(buf, 8, TALLY[i]); }
      }
    }
    for (int i = 0; i < NF; ++i) {
      g_ord = TABLE[i].flip ? (ORD == kLE ? kBE : kLE) : ORD;
      int n = field_bits(TABLE[i].w);
      patterns(n, pats);
      if (KIND == KBcd) bcd_patterns(n, pats);
      for (int mis = 0; mis < (BYTES_MODE ? 8 : 1); ++mis) {
        unsigned char *buf = aligned + mis;
        for (int fi = 0; fi < 3; ++fi) {
          for (size_t p = 0; p < pats.size(); ++p) {
            if (mis > 0 && p % 7 != 0 && pats.size() > 64) continue;   // misaligned bases: thinned pattern set
            std::memset(buf, fills[fi], NB);
            field_put(buf, TABLE[i].o, TABLE[i].w, pats[p]);
            int al = mis == 0 ? 8 : (mis % 4 == 0 ? 4 : (mis % 2 == 0 ? 2 : 1));
            TABLE[i].rd(buf, al, TALLY[i]);
            if (BYTES_MODE) TABLE[i].rd(buf, 1, TALLY[i]);
          }
        }
      }
    }
  } else {
    for (int i = 0; i < NF; ++i) {
      g_ord = TABLE[i].flip ? (ORD == kLE ? kBE : kLE) : ORD;
      int n = field_bits(TABLE[i].w);
      candidates(n, cands);
      std::vector<std::vector<unsigned char> > inits;
      for (int fi = 0; fi < 3; ++fi) inits.push_back(std::vector<unsigned char>(NB, fills[fi]));
      if (NB == 1) for (int c = 0; c < 256; ++c) inits.push_back(std::vector<unsigned char>(1, (unsigned char)c));
      else for (int b = 0; b < 8 * NB; ++b) { std::vector<unsigned char> v(NB, 0); v[b / 8] = (unsigned char)(1u << (b % 8)); inits.push_back(v); }
      for (size_t k = 0; k < inits.size(); ++k) {
        for (size_t c = 0; c < cands.size(); ++c) {
          for (int carrier = 0; carrier < 3; ++carrier) {
            unsigned char *buf = aligned;
            std::memcpy(buf, inits[k].data(), NB);
            ++g_states;
            TABLE[i].wr(buf, NB, cands[c], carrier);
          }
        }
      }
      // truncated backing store: nothing may be written, nothing may change
      for (size_t c = 0; c < cands.size(); c += 3) {
        unsigned char *buf = aligned;
        std::memset(buf, 0x5A, NB);
        TABLE[i].wr(buf, NB - 1, cands[c], (KIND == KUInt || KIND == KInt) ? 1 : 0);
      }
    }
  }
  int varied = 0;
  for (int i = 0; i < NF; ++i) if (TALLY[i].varied) ++varied;
  std::printf("SUMMARY reads=%llu writes=%llu states=%llu mism=%llu fields=%d varied=%d\n", g_reads, g_writes, g_states, g_mism, NF, varied);
  std::free(arena);
  return 0;
}
'''


def driver(kind, c, order, bytes_mode):
    flds = byte_fields(kind) if bytes_mode else fields_for(kind, c)
    funcs = []
    table = []
    nb = 16 if bytes_mode else c // 8
    entries = [(o, w, "f_%d_%d" % (o, w), 0) for o, w in flds]
    if bytes_mode:
        entries += [(o, w, "g_%d_%d" % (o, w), 1) for o, w in flds if w > 1 and o in (0, 1, 4)]
    for o, w, name, flip in entries:
        acc = ("v.%s()" % name) if bytes_mode else ("v.b().%s()" % name)
        if bytes_mode:
            mk = ("  if (al >= 8) { auto v = G::MakeAlignedSsView<const unsigned char, 8>(buf, NB); check_read(%(acc)s, buf, %(o)d, %(w)d, \"%(n)s\", t); }\n"
                  "  else if (al >= 4) { auto v = G::MakeAlignedSsView<const unsigned char, 4>(buf, NB); check_read(%(acc)s, buf, %(o)d, %(w)d, \"%(n)s\", t); }\n"
                  "  else if (al >= 2) { auto v = G::MakeAlignedSsView<const unsigned char, 2>(buf, NB); check_read(%(acc)s, buf, %(o)d, %(w)d, \"%(n)s\", t); }\n"
                  "  else { auto v = G::MakeSsView(buf, NB); check_read(%(acc)s, buf, %(o)d, %(w)d, \"%(n)s\", t); }\n") % {
                      "acc": acc, "o": o, "w": w, "n": name}
        else:
            mk = "  (void)al; auto v = G::MakeSsView(buf, NB); check_read(%s, buf, %d, %d, \"%s\", t);\n" % (acc, o, w, name)
        funcs.append("static void rd_%s(const unsigned char *buf, int al, Tally &t) {\n%s}" % (name, mk))
        funcs.append("static void wr_%s(unsigned char *buf, int len, i128 cand, int carrier) {\n"
                     "  auto v = G::MakeSsView(buf, (size_t)len); check_write(%s, buf, len, %d, %d, cand, carrier, \"%s\");\n}" % (
                         name, acc, o, w, name))
        table.append('  {%d, %d, "%s", rd_%s, wr_%s, %d},' % (o, w, name, name, name, flip))
    src = DRIVER
    src = src.replace("@KIND@", kind).replace("@NB@", str(nb)).replace("@ORD@", "kBE" if order == "BigEndian" else "kLE")
    src = src.replace("@BYTES@", "true" if bytes_mode else "false")
    src = src.replace("@FIELD_FUNCS@", "\n".join(funcs)).replace("@TABLE@", "\n".join(table))
    return src
