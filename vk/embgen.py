"""EmbSpace: the generator of .emb programs with ground-truth ASTs (DESIGN 2.2).

program(ch) asks ch.choose(...) at every feature choice point (alternative 0 is
the plain default) and returns a Program: the Module AST, the structure under
test, parameter tuples and per-position byte alphabets for the buffer
enumeration.  Control fields live in a leading 1-byte `bits` header:
tag (2 bits), len (2), off (3), flg (1).
"""
from . import embast as A

C = lambda v: ("c", v)
F = lambda *p: ("f", tuple(p))
OP = lambda op, a, b: ("op", op, a, b)

SLOT_TYPES = ["u8", "i8", "u16", "i16be", "bcd8", "u32", "enum8", "inner", "dyn", "pars", "bitsT", "anon",
              "arr_u8x2", "arr_auto", "arr_i16x2", "arr_inner", "f32", "bcd16", "u64", "senum8", "arr_bits", "i32", "zero_tail", "arr_u24x2", "arr_tri", "enumk8", "f64", "arr_par2", "anon_arr", "u16k", "anon_skip", "anon_fwd"]
STARTS = ["const", "off", "next", "next+1", "off+1", "overlap", "prevval", "2*off+1", "fwdval", "off-2"]
CONDS = ["always", "tag==1", "tag==2", "off<3", "flg", "flg&&tag==1", "flg||tag==1", "present_prev", "tag==5",
         "param", "prev==7", "tag!=0&&len==1", "prev==7&&tag==1", "tag==1&&prev==7", "prev==7||tag==1",
         "tag==1||prev==7", "fwd==7", "tag==-1", "tag==2^32", "false"]
CONDALL = ["none", "tag==1", "off<3", "tag==1&req"]
ATTRS = ["none", "req<100", "req!=0", "skip", "emit"]
VIRTS = ["none", "x+1", "10-x", "alias", "nested_inv", "const", "bool", "max", "choice", "x+1_req", "cond_virt",
         "alias_nested", "k+x", "x*2", "neg", "abs", "c2^31", "c2^32", "c2^63", "c-2^63", "c2^64-1", "c2^31-1", "cbool", "alias_first", "x+1_first", "alias_of_virt", "false_const", "false_x+1"]
SREQS = ["none", "tag!=3", "len<=off"]
PARAMS = ["none", "uint4", "int4", "enum"]

DEFAULT_SIZE = {"u8": 1, "i8": 1, "u16": 2, "i16be": 2, "bcd8": 1, "u32": 4, "enum8": 1, "inner": 2, "dyn": 3, "pars": 2,
                "bitsT": 1, "anon": 1, "arr_u8x2": 2, "arr_auto": None, "arr_i16x2": 4, "arr_inner": 4, "f32": 4,
                "bcd16": 2, "u64": 8, "senum8": 1, "arr_bits": 2, "i32": 4, "zero_tail": 0, "arr_u24x2": 6, "arr_tri": 6, "enumk8": 1, "f64": 8, "arr_par2": 4, "anon_arr": 3, "u16k": 2, "anon_skip": 1, "anon_fwd": 1}
INT_SCALARS = {"u8", "i8", "u16", "i16be", "bcd8", "u32", "bcd16", "u64", "i32", "u16k"}


class Program(object):
    def __init__(self, module, root, param_tuples, alphabets, features, notes=None):
        self.module, self.root, self.param_tuples = module, root, param_tuples
        self.alphabets, self.features = alphabets, features
        self.notes = notes or {}

    def files(self):
        return A.files_of(self.module)


def _kind_enum():
    return A.Enum("Kind", [("KA", 0), ("KB", 1), ("KC", 2), ("KD", 3)])


def _skind_enum():
    return A.Enum("SKind", [("SN", -1), ("SZ", 0), ("SP", 1), ("SM", -128)])


def _inner():
    return A.Struct("Inner", "struct", (), [
        A.Field("a", ("UInt", None), C(0), C(1)),
        A.Field("b", ("Int", None), C(1), C(1)),
    ])


def _dyn():
    return A.Struct("Dyn", "struct", (), [
        A.Field("n", ("UInt", None), C(0), C(1)),
        A.Field("data", ("array", ("UInt", 8), None), C(1), F("n")),
    ])


def _pars():
    return A.Struct("ParS", "struct", [("pp", ("UInt", 8))], [
        A.Field("y", ("UInt", None), C(0), C(1)),
        A.Field("z", ("UInt", None), C(1), C(1), cond=OP("==", F("pp"), C(1))),
    ])


def _par2():
    return A.Struct("Par2", "struct", [("pa", ("UInt", 8)), ("pb", ("UInt", 8))], [
        A.Field("y", ("UInt", None), C(0), C(1)),
        A.Field("z", ("UInt", None), C(1), C(1)),
        A.Field("d", expr=OP("-", F("pa"), OP("*", C(2), F("pb")))),
        A.Field("s", expr=OP("+", OP("*", F("pb"), C(8)), F("pa"))),
    ])


def _tri():
    return A.Struct("Tri", "struct", (), [
        A.Field("lo", ("UInt", None), C(0), C(1)),
        A.Field("hi", ("UInt", None), C(1), C(2)),
    ])


def _bits_t():
    return A.Struct("Bt", "bits", (), [
        A.Field("lo", ("UInt", None), C(0), C(3)),
        A.Field("hi", ("Int", None), C(3), C(5)),
    ])


def program(ch, menu=None):
    """menu: optional dict restricting the alternatives of a dimension (name -> list of allowed labels)."""
    menu = menu or {}

    def pick(options, tag):
        allowed = menu.get(tag.split(".")[-1], None)
        opts = [o for o in options if allowed is None or o in allowed or o == options[0]]
        return opts[ch.choose(len(opts), tag)]

    feats = {}
    order_choice = pick(["LittleEndian", "BigEndian", "none"], "mod.byte_order")
    feats["byte_order"] = order_choice
    # "none": the module has no $default byte_order; one-byte fields get the Null order, wider ones an explicit attribute
    order = "LittleEndian" if order_choice == "none" else order_choice
    imp = pick(["no", "yes"], "mod.import")
    feats["import"] = imp
    PX = "im." if imp == "yes" else ""
    ptype = pick(PARAMS, "main.params")
    feats["params"] = ptype
    params = {"none": [], "uint4": [("p", ("UInt", 4))], "int4": [("p", ("Int", 4))],
              "enum": [("p", ("enum", PX + "Kind", None))]}[ptype]
    need = set()
    header = A.Field(None, ("anon", [
        A.Field("tag", ("UInt", None), C(0), C(2)),
        A.Field("len", ("UInt", None), C(2), C(2)),
        A.Field("off", ("UInt", None), C(4), C(3)),
        A.Field("flg", ("Flag",), C(7), C(1)),
    ]), C(0), C(1))
    fields = [header]
    condall = pick(CONDALL, "main.condall")
    feats["condall"] = condall
    nslots = 3
    pos = 1
    prev = None            # (name, slot type, start expr const?)
    slot_info = []
    for i in range(nslots):
        name = "f%d" % i
        st = pick(SLOT_TYPES, "slot%d.type" % i)
        start_kind = pick(STARTS, "slot%d.start" % i)
        cond_kind = pick(CONDS, "slot%d.cond" % i)
        attr_kind = pick(ATTRS, "slot%d.attr" % i)
        feats["slot%d" % i] = (st, start_kind, cond_kind, attr_kind)
        size = DEFAULT_SIZE[st]
        # ---- type
        bo = None
        size_expr = C(size) if size is not None else F("len")
        if st == "u8":
            typ = ("UInt", None)
        elif st == "u16k":
            typ = ("UInt", None)
            size_expr = F("k2")                         # constant only by inference: `let k2 = 2`
            if not any(getattr(g, "name", None) == "k2" for g in fields):
                fields.append(A.Field("k2", expr=C(2)))
        elif st == "i32":
            typ = ("Int", None)
        elif st == "i8":
            typ = ("Int", None)
        elif st == "u16":
            typ = ("UInt", None)
        elif st == "i16be":
            typ = ("Int", None)
            bo = "BigEndian" if order == "LittleEndian" else "LittleEndian"
        elif st in ("bcd8", "bcd16"):
            typ = ("Bcd", None)
        elif st in ("u32", "u64"):
            typ = ("UInt", None)
        elif st in ("f32", "f64"):
            typ = ("Float", None)
        elif st == "enum8":
            typ = ("enum", PX + "Kind", None)
            need.add("Kind")
        elif st == "senum8":
            typ = ("enum", PX + "SKind", None)
            need.add("SKind")
        elif st == "inner":
            typ = ("struct", PX + "Inner", ())
            need.add("Inner")
        elif st == "dyn":
            typ = ("struct", PX + "Dyn", ())
            need.add("Dyn")
        elif st == "pars":
            typ = ("struct", PX + "ParS", (F("len"),))
            need.add("ParS")
        elif st == "bitsT":
            typ = ("struct", PX + "Bt", ())
            need.add("Bt")
        elif st == "anon":
            typ = ("anon", [A.Field("a%d" % i, ("UInt", None), C(0), C(4)),
                            A.Field("g%d" % i, ("Flag",), C(7), C(1))])
        elif st == "anon_skip":
            typ = ("anon", [A.Field("a%d" % i, ("UInt", None), C(0), C(4), text_output="Skip"),
                            A.Field("g%d" % i, ("Flag",), C(7), C(1))])
        elif st == "anon_fwd":
            # a member whose condition reads a sibling declared after it (text must be written in dependency order)
            typ = ("anon", [A.Field("a%d" % i, ("UInt", None), C(0), C(4), cond=F("g%d" % i)),
                            A.Field("g%d" % i, ("Flag",), C(7), C(1))])
        elif st == "arr_u8x2":
            typ = ("array", ("UInt", 8), C(2))
        elif st == "arr_auto":
            typ = ("array", ("UInt", 8), None)
        elif st == "arr_i16x2":
            typ = ("array", ("Int", 16), C(2))
        elif st == "arr_inner":
            typ = ("array", ("struct", PX + "Inner", ()), C(2))
            need.add("Inner")
        elif st == "arr_bits":
            typ = ("array", ("struct", PX + "Bt", ()), C(2))
            need.add("Bt")
        elif st == "zero_tail":
            typ = ("array", ("UInt", 8), None)         # a zero-length end marker past every other field
        elif st == "arr_u24x2":
            typ = ("array", ("UInt", 24), C(2))
        elif st == "arr_tri":
            typ = ("array", ("struct", PX + "Tri", ()), C(2))
            need.add("Tri")
        elif st == "anon_arr":
            # an array inside a bits block that does not reach the end of its container
            typ = ("anon", [A.Field("l%d" % i, ("array", ("UInt", 3), C(4)), C(4), C(12)),
                            A.Field("v%d" % i, ("UInt", None), C(16), C(8))])
        elif st == "arr_par2":
            # elements take two parameters with (usually) different values: argument order matters
            typ = ("array", ("struct", PX + "Par2", (F("len"), F("off"))), C(2))
            need.add("Par2")
        elif st == "enumk8":
            typ = ("enum", PX + "KindK", None)
            need.add("KindK")
        # ---- start
        if start_kind == "const":
            start = C(pos + 2) if st == "zero_tail" else C(pos)
        elif start_kind == "off":
            start = F("off")
        elif start_kind == "next":
            start = ("next",)
        elif start_kind == "next+1":
            start = OP("+", ("next",), C(1))
        elif start_kind == "off+1":
            start = OP("+", F("off"), C(1))
        elif start_kind == "overlap":
            start = C(pos - (slot_info[-1]["size"] or 1)) if slot_info else C(0)
        elif start_kind == "prevval":
            if prev and prev[1] in ("u8", "bcd8"):
                start = F(prev[0])
            else:
                start = F("off")
        elif start_kind == "2*off+1":
            start = OP("+", OP("*", C(2), F("off")), C(1))
        elif start_kind == "off-2":
            start = OP("-", F("off"), C(2))
        elif start_kind == "fwdval":
            start = F("f%d" % (i + 1)) if i + 1 < nslots else F("off")
        # ---- condition
        cond = None
        if cond_kind == "tag==1":
            cond = OP("==", F("tag"), C(1))
        elif cond_kind == "tag==2":
            cond = OP("==", F("tag"), C(2))
        elif cond_kind == "off<3":
            cond = OP("<", F("off"), C(3))
        elif cond_kind == "flg":
            cond = F("flg")
        elif cond_kind == "flg&&tag==1":
            cond = OP("&&", F("flg"), OP("==", F("tag"), C(1)))
        elif cond_kind == "flg||tag==1":
            cond = OP("||", F("flg"), OP("==", F("tag"), C(1)))
        elif cond_kind == "present_prev":
            cond = ("present", (prev[0],)) if prev and prev[1] not in ("anon", "anon_arr", "anon_skip", "anon_fwd") else ("present", ("tag",))
        elif cond_kind == "tag==5":
            cond = OP("==", F("tag"), C(5))
        elif cond_kind == "param":
            if ptype in ("uint4", "int4"):
                cond = OP("==", F("p"), C(1))
            elif ptype == "enum":
                cond = OP("==", F("p"), ("ev", PX + "Kind", "KB"))
                need.add("Kind")
            else:
                cond = OP("!=", F("tag"), C(0))
        elif cond_kind == "prev==7":
            if prev and prev[1] in INT_SCALARS:
                cond = OP("==", F(prev[0]), C(7))
            else:
                cond = OP("==", F("len"), C(3))
        elif cond_kind == "tag!=0&&len==1":
            cond = OP("&&", OP("!=", F("tag"), C(0)), OP("==", F("len"), C(1)))
        elif cond_kind in ("prev==7&&tag==1", "tag==1&&prev==7", "prev==7||tag==1", "tag==1||prev==7"):
            if prev and prev[1] in INT_SCALARS:
                pc = OP("==", F(prev[0]), C(7))
            else:
                pc = OP("==", F("len"), C(3))
            tc = OP("==", F("tag"), C(1))
            op2 = "&&" if "&&" in cond_kind else "||"
            cond = OP(op2, pc, tc) if cond_kind.startswith("prev") else OP(op2, tc, pc)
        elif cond_kind == "tag==-1":
            cond = OP("==", F("tag"), C(-1))            # a constant the field can never equal (below its range)
        elif cond_kind == "tag==2^32":
            cond = OP("==", F("tag"), C(2 ** 32))       # ... and above it
        elif cond_kind == "false":
            cond = ("b", False)
        elif cond_kind == "fwd==7":
            # forward reference: the condition reads a field declared later in the source
            cond = OP("==", F("f%d" % (i + 1)), C(7)) if i + 1 < nslots else OP("==", F("tag"), C(1))
        if cond is None and condall in ("tag==1", "tag==1&req"):
            cond = OP("==", F("tag"), C(1))
        elif cond is None and condall == "off<3":
            cond = OP("<", F("off"), C(3))
        # ---- attributes
        req = None
        text_output = None
        if attr_kind == "none" and condall == "tag==1&req" and st in INT_SCALARS:
            req = OP("<", ("this",), C(100))
        if attr_kind == "req<100" and st in INT_SCALARS:
            req = OP("<", ("this",), C(100))
        elif attr_kind == "req!=0" and st in INT_SCALARS:
            req = OP("!=", ("this",), C(0))
        elif attr_kind == "skip":
            text_output = "Skip"
        elif attr_kind == "emit":
            text_output = "Emit"
        if order_choice == "none" and bo is None and st not in ("inner", "dyn", "pars", "arr_inner", "arr_tri", "arr_par2", "zero_tail"):
            one_byte = st in ("u8", "i8", "bcd8", "enum8", "senum8", "enumk8", "bitsT", "anon", "anon_skip", "anon_fwd", "arr_u8x2", "arr_auto", "arr_bits")
            if not one_byte:
                bo = order
        if st in ("anon", "anon_arr", "anon_skip", "anon_fwd"):
            fld = A.Field(None, typ, start, size_expr, cond=cond, byte_order=bo if st == "anon_arr" else None)
            if text_output and st == "anon":
                typ[1][0].text_output = text_output      # the attribute on a member of the anonymous bits
        else:
            fld = A.Field(name, typ, start, size_expr, cond=cond, requires=req, byte_order=bo, text_output=text_output)
        fields.append(fld)
        slot_info.append({"name": name, "type": st, "size": size, "start": start_kind, "pos": pos})
        prev = (name, st)
        pos += size if size is not None else 2
    # ---- virtual fields
    vk = pick(VIRTS, "virt0")
    feats["virt0"] = vk
    s0 = slot_info[0]
    X = F("f0") if (s0["type"] in INT_SCALARS and s0["type"] != "u64") else F("len")
    v = None
    if vk == "x+1":
        v = A.Field("v", expr=OP("+", X, C(1)))
    elif vk == "10-x":
        v = A.Field("v", expr=OP("-", C(10), X))
    elif vk == "alias":
        v = A.Field("v", expr=X)
    elif vk == "nested_inv":
        v = A.Field("v", expr=OP("+", C(2), OP("-", OP("-", C(3), X), C(10))))
    elif vk == "const":
        v = A.Field("v", expr=C(7))
    elif vk == "bool":
        v = A.Field("v", expr=OP(">", X, C(5)))
    elif vk == "max":
        v = A.Field("v", expr=("max", X, F("len")))
    elif vk == "choice":
        v = A.Field("v", expr=("?:", F("flg"), X, F("len")))
    elif vk == "x+1_req":
        v = A.Field("v", expr=OP("+", X, C(1)), requires=OP("<", ("this",), C(50)))
    elif vk == "cond_virt":
        v = A.Field("v", expr=OP("+", X, C(1)), cond=OP("==", F("tag"), C(1)))
    elif vk == "alias_nested":
        inner_slot = [s for s in slot_info if s["type"] == "inner"]
        if inner_slot:
            v = A.Field("v", expr=F(inner_slot[0]["name"], "a"))
        else:
            v = A.Field("v", expr=F("tag"))
    elif vk == "k+x":
        v = A.Field("v", expr=OP("+", C(5), X))
    elif vk == "x*2":
        v = A.Field("v", expr=OP("*", X, C(2)))
    elif vk in ("c2^31", "c2^32", "c2^63", "c-2^63", "c2^64-1", "c2^31-1"):
        v = A.Field("v", expr=C({"c2^31": 2 ** 31, "c2^32": 2 ** 32, "c2^63": 2 ** 63, "c-2^63": -2 ** 63,
                                 "c2^64-1": 2 ** 64 - 1, "c2^31-1": 2 ** 31 - 1}[vk]))
    elif vk == "cbool":
        v = A.Field("v", expr=OP("==", C(3), C(3)))
    elif vk == "neg":
        v = A.Field("v", expr=("neg", X))
    elif vk == "abs":
        v = A.Field("v", expr=("?:", OP("<", X, C(0)), ("neg", X), X))
    elif vk == "alias_of_virt":
        fields.append(A.Field("vb", expr=OP("+", X, C(10))))
        v = A.Field("v", expr=F("vb"))                  # an alias of a computed virtual field
    elif vk == "false_const":
        v = A.Field("v", expr=C(7), cond=("b", False))  # a constant under a constant-false condition
    elif vk == "false_x+1":
        v = A.Field("v", expr=OP("+", X, C(1)), cond=("b", False))
    elif vk == "alias_first":
        v = A.Field("v", expr=X)
    elif vk == "x+1_first":
        v = A.Field("v", expr=OP("+", X, C(1)))
    if v is not None and vk.endswith("_first"):
        fields.insert(1, v)          # written before the field it names (forward reference)
    elif v is not None:
        fields.append(v)
    wk = pick(["none", "v*2", "v+len"], "virt1")
    feats["virt1"] = wk
    if v is not None and vk not in ("bool", "cbool", "c2^63", "c-2^63", "c2^64-1") and wk != "none":
        if wk == "v*2":
            fields.append(A.Field("w", expr=OP("*", F("v"), C(2))))
        else:
            fields.append(A.Field("w", expr=OP("+", F("v"), F("len"))))
    sk = pick(SREQS, "main.requires")
    feats["sreq"] = sk
    sreq = None
    if sk == "tag!=3":
        sreq = OP("!=", F("tag"), C(3))
    elif sk == "len<=off":
        sreq = OP("<=", F("len"), F("off"))
    main = A.Struct("Main", "struct", params, fields, requires=sreq)
    enums = []
    if "Kind" in need or ptype == "enum":
        enums.append(_kind_enum())
    if "SKind" in need:
        enums.append(_skind_enum())
    if "KindK" in need:
        ek = A.Enum("KindK", [("KA", 0), ("K_B", 1), ("KCC_1", 2)])
        ek.enum_case = "kCamelCase"
        enums.append(ek)
    structs = []
    for nm, mk in (("Inner", _inner), ("Dyn", _dyn), ("ParS", _pars), ("Bt", _bits_t), ("Tri", _tri), ("Par2", _par2)):
        if nm in need:
            structs.append(mk())
    if imp == "yes":
        other = "BigEndian" if order == "LittleEndian" else "LittleEndian"
        imported = A.Module(other, None, enums, structs, name="imp.emb")
        module = A.Module(None if order_choice == "none" else order, None, [], [main], imports=[("im", imported)])
    else:
        if order_choice == "none":
            for st_ in structs:
                if st_.kind == "struct":
                    st_.byte_order = order      # helper types keep an order of their own ($default on the struct)
        structs.append(main)
        module = A.Module(None if order_choice == "none" else order, None, enums, structs)
    # ---- parameter tuples
    tuples = {"none": [()], "uint4": [(0,), (1,), (2,), (15,)], "int4": [(-8,), (-1,), (0,), (1,), (7,)],
              "enum": [(0,), (1,), (3,)]}[ptype]
    prog = Program(module, "Main", tuples, None, feats)
    prog.nominal_size = pos          # end of the last slot when every field sits at its default place
    prog.alphabets = alphabets_for(prog)
    return prog


# ------------------------------------------------------------------ buffer alphabets
def _refs(e, acc):
    if e is None:
        return acc
    k = e[0]
    if k == "f":
        acc.add(e[1][0])
    elif k == "present":
        acc.add("$present:" + e[1][0])
    elif k in ("op",):
        _refs(e[2], acc)
        _refs(e[3], acc)
    elif k in ("neg",):
        _refs(e[1], acc)
    elif k in ("max", "?:"):
        for a in e[1:]:
            _refs(a, acc)
    return acc


def referenced_names(struct):
    acc = set()
    for f in struct.fields:
        for e in (f.start, f.size, f.cond, f.expr):
            _refs(e, acc)
        t = f.type
        while t is not None:
            if t[0] == "struct":
                for a in t[2]:
                    _refs(a, acc)
            if t[0] == "array":
                _refs(t[2], acc)
                t = t[1]          # the element type may take arguments too
                continue
            break
    _refs(struct.requires, acc)
    # references through virtual fields
    changed = True
    while changed:
        changed = False
        for f in struct.fields:
            if f.virtual and f.name in acc:
                n = len(acc)
                _refs(f.expr, acc)
                changed = changed or len(acc) != n
    return acc


PAYLOAD = [0x00, 0xFF, 0x99, 0x80]
THRESH = [0x00, 0x01, 0x04, 0x06, 0x07, 0x08, 0x31, 0x63, 0x64, 0x80, 0xFF]


def alphabets_for(prog, cap=4096, max_len=10):
    """Per-position byte alphabets.  Position 0 is the control byte: every combination of the values of the
    control fields the program mentions (others fixed at 0).  Payload positions that an expression reads get a
    threshold alphabet; the rest the 4-value payload alphabet.  The product over all lengths is capped by
    shrinking the highest payload positions first (deterministic; never the control byte)."""
    main = prog.module.struct(prog.root)
    refs = referenced_names(main)
    # a program with a wide slot (u64, f64) must still have complete buffers: lengths reach nominal size + 1
    max_len = max(max_len, min(getattr(prog, "nominal_size", 0) + 2, 14))
    vals = [0]
    for name, shift, width in (("tag", 0, 2), ("len", 2, 2), ("off", 4, 3), ("flg", 7, 1)):
        if name in refs or ("$present:" + name) in refs:
            vals = [v | (x << shift) for v in vals for x in range(1 << width)]
        elif name in ("len", "off"):
            vals = [v | (x << shift) for v in vals for x in (0, (1 << width) - 1)] if False else vals
    control = sorted(set(vals))
    alph = [control]
    # which payload bytes are read by expressions: fields named in refs with constant start
    hot = set()
    for f in main.fields:
        if f.type is None or f.type[0] == "anon" or f.virtual:
            continue
        if f.name in refs and f.start[0] == "c" and f.size[0] == "c":
            for b in range(f.start[1], f.start[1] + f.size[1]):
                hot.add(b)
    for posn in range(1, max_len):
        alph.append(list(THRESH) if posn in hot else list(PAYLOAD))
    # cap
    def total(al):
        t, prod = 1, 1
        for a in al:
            prod *= len(a)
            t += prod
        return t
    k = len(alph) - 1
    while total(alph) > cap and k >= 1:
        a = alph[k]
        if len(a) > 2:
            alph[k] = [a[0]] + a[2:-1:2] + [a[-1]] if len(a) > 3 else [a[0], a[-1]]
        elif len(a) == 2:
            alph[k] = a[1:] if k not in hot else a[:1]
        if len(alph[k]) <= 1:
            k -= 1
    # if still above the cap shorten the maximum length
    while total(alph) > cap and len(alph) > 3:
        alph.pop()
    return alph
