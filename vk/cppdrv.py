"""C++ driver generation, building and running for checks that execute generated headers.

One translation unit per program.  The driver contains the buffer enumeration
itself, allocates every buffer with malloc(len) exactly, and prints one record
per (parameter tuple, buffer):   P<idx> <hex>|<ok><complete><sizeknown>:<size>|obs;obs;...
with the observation grammar of refsem.observe().
"""
import hashlib
import os
import re
import shutil
import subprocess
import tempfile

from . import common, embast

PRELUDE = r'''
#include <cstdio>
#include <cstdlib>
#include <cstring>
#include <string>
#include <type_traits>
#include <cstdint>
#include "prog.emb.h"

namespace vk {
template <class T, bool IsEnum = std::is_enum<T>::value> struct Und { typedef T type; };
template <class T> struct Und<T, true> { typedef typename std::underlying_type<T>::type type; };

template <class T> static inline void put(std::string &o, T v) {
  typedef typename Und<T>::type R;
  R r = static_cast<R>(v);
  char b[48];
  if (std::is_same<R, bool>::value) { o += (r ? '1' : '0'); return; }
  if (std::is_floating_point<R>::value) {
    if (sizeof(R) == 4) { std::uint32_t u; std::memcpy(&u, &r, 4); std::snprintf(b, sizeof b, "f%x", (unsigned)u); }
    else { std::uint64_t u; std::memcpy(&u, &r, 8); std::snprintf(b, sizeof b, "f%llx", (unsigned long long)u); }
    o += b; return;
  }
  if (std::is_signed<R>::value) std::snprintf(b, sizeof b, "%lld", (long long)r);
  else std::snprintf(b, sizeof b, "%llu", (unsigned long long)r);
  o += b;
}
template <class M> static inline char hch(const M &h) { return h.Known() ? (h.ValueOrDefault() ? 'T' : 'F') : 'U'; }
static inline void hex(std::string &o, const unsigned char *p, size_t n) {
  static const char *d = "0123456789abcdef";
  for (size_t i = 0; i < n; ++i) { o += d[p[i] >> 4]; o += d[p[i] & 15]; }
}
template <class V> static inline void scalar(std::string &o, const V &x, char h) {
  bool ok = x.Ok();
  o += ok ? ",1," : ",0,";
  if (ok && h == 'T') put(o, x.Read()); else o += '-';
}
}  // namespace vk
'''


def cpp_ns(module):
    ns = module.namespace
    if not ns:
        return "::emboss_generated_code"
    return "::" + ns.lstrip(":")


def _elem_is_struct(t):
    return t[0] == "struct"


def gen_observers(module):
    """C++ function templates obs_<Struct>(view, out, prefix) for every struct in the module (and imports)."""
    out = []
    decls = []
    mods = [(None, module)] + [(a, m) for a, m in module.imports]
    for alias, m in mods:
        for s in m.structs:
            fn = "obs_%s%s" % ((alias + "_") if alias else "", s.name)
            decls.append("template <class V> static void %s(const V &v, std::string &o, const std::string &pre);" % fn)
    out.extend(decls)
    for alias, m in mods:
        for s in m.structs:
            fn = "obs_%s%s" % ((alias + "_") if alias else "", s.name)
            body = ["template <class V> static void %s(const V &v, std::string &o, const std::string &pre) {" % fn]
            for f in s.all_named_fields():
                n = f.name
                body.append('  { o += pre; o += "%s="; char h = vk::hch(v.has_%s()); o += h;' % (n, n))
                t = f.type
                if f.virtual or t[0] in ("UInt", "Int", "Bcd", "Flag", "Float", "enum"):
                    body.append("    vk::scalar(o, v.%s(), h); o += ';'; }" % n)
                elif t[0] == "struct":
                    sub = _obs_name(module, m, alias, t[1])
                    body.append("    auto s = v.%s(); o += s.Ok() ? \",1,{;\" : \",0,{;\"; %s(s, o, pre + \"%s.\"); }" % (n, sub, n))
                elif t[0] == "array":
                    body.append("    auto a = v.%s(); o += a.Ok() ? \",1,#\" : \",0,#\"; vk::put(o, (unsigned long long)a.ElementCount()); o += ';';" % n)
                    body.append("    for (size_t i = 0; i < a.ElementCount(); ++i) {")
                    body.append("      char ib[32]; std::snprintf(ib, sizeof ib, \"[%zu]\", i);")
                    if _elem_is_struct(t[1]):
                        sub = _obs_name(module, m, alias, t[1][1])
                        body.append("      auto e = a[i]; o += pre; o += \"%s\"; o += ib; o += e.Ok() ? \"=T,1,{;\" : \"=T,0,{;\";" % n)
                        body.append("      %s(e, o, pre + \"%s\" + ib + \".\");" % (sub, n))
                    else:
                        body.append("      o += pre; o += \"%s\"; o += ib; o += \"=T\"; vk::scalar(o, a[i], 'T'); o += ';';" % n)
                    body.append("    } }")
                else:
                    raise ValueError(t)
            body.append("}")
            out.extend(body)
    return "\n".join(out)


def _obs_name(root, cur_module, cur_alias, struct_name):
    if "." in struct_name:
        a, n = struct_name.split(".", 1)
        return "obs_%s_%s" % (a, n)
    return "obs_%s%s" % ((cur_alias + "_") if cur_alias else "", struct_name)


def gen_enumeration(lengths_alphabets):
    """lengths_alphabets: list indexed by position of lists of byte values; buffers of every length 0..L
    take the product of the first `len` alphabets."""
    L = len(lengths_alphabets)
    K = max([len(a) for a in lengths_alphabets] + [1])
    rows = []
    for a in lengths_alphabets:
        rows.append("{%s}" % ",".join(str(x) for x in (list(a) + [0] * (K - len(a)))))
    return L, K, "static const unsigned char ALPHA[%d][%d] = {%s};\nstatic const int ALEN[%d] = {%s};\n" % (
        max(L, 1), K, ",".join(rows) if rows else "{0}", max(L, 1), ",".join(str(len(a)) for a in lengths_alphabets) if rows else "0")


def gen_main(module, struct_name, param_tuples, alphabets, extra_sections="", observe=True):
    s = module.struct(struct_name)
    ns = cpp_ns(module)
    L, K, table = gen_enumeration(alphabets)
    lines = [table]
    lines.append("int main() {")
    lines.append("  static char obuf[1 << 20]; setvbuf(stdout, obuf, _IOFBF, sizeof obuf);")
    lines.append("  std::string o;")
    lines.append("  for (int len = 0; len <= %d; ++len) {" % L)
    lines.append("    int idx[%d + 1] = {0};" % max(L, 1))
    lines.append("    for (;;) {")
    lines.append("      unsigned char *p = (unsigned char *)std::malloc(len ? len : 1); if (len == 0) { std::free(p); p = (unsigned char *)std::malloc(0); if (!p) p = (unsigned char *)std::malloc(1); }")
    lines.append("      for (int i = 0; i < len; ++i) p[i] = ALPHA[i][idx[i]];")
    for pi, tup in enumerate(param_tuples):
        args = "".join("%s, " % _cpp_param(module, pt, v) for (pn, pt), v in zip(s.params, tup))
        lines.append("      { auto view = %s::Make%sView(%sstatic_cast<const unsigned char *>(p), (size_t)len);" % (ns, s.name, args))
        lines.append("        o.clear(); o += \"P%d \"; vk::hex(o, p, len); o += '|';" % pi)
        lines.append("        o += view.Ok() ? '1' : '0'; o += view.IsComplete() ? '1' : '0'; bool sk = view.SizeIsKnown(); o += sk ? '1' : '0'; o += ':';")
        unit = "Bytes" if s.kind == "struct" else "Bits"
        lines.append("        if (sk) vk::put(o, (unsigned long long)view.SizeIn%s()); else o += '-'; o += '|';" % unit)
        if observe:
            lines.append("        obs_%s(view, o, std::string()); o += '\\n'; fwrite(o.data(), 1, o.size(), stdout);" % s.name)
        else:
            lines.append("        obs_%s(view, o, std::string());" % s.name)
        if callable(extra_sections):
            lines.append(extra_sections(pi, args).replace("@NS@", ns))
        elif extra_sections:
            lines.append(extra_sections.replace("@PI@", str(pi)))
        lines.append("      }")
    lines.append("      std::free(p);")
    lines.append("      int k = 0; while (k < len) { if (++idx[k] < ALEN[k]) break; idx[k] = 0; ++k; }")
    lines.append("      if (k >= len) break;")
    lines.append("    }")
    lines.append("  }")
    lines.append("  return 0;")
    lines.append("}")
    return "\n".join(lines)


def _cpp_param(module, ptype, value):
    if ptype[0] == "enum":
        name = ptype[1]
        ns = cpp_ns(module)
        if "." in name:
            alias, name = name.split(".", 1)
            ns = cpp_ns(dict(module.imports)[alias])
        return "static_cast<%s::%s>(%dLL)" % (ns, name, value)
    return "%dLL" % value


def driver_source(module, struct_name, param_tuples, alphabets, extra_decls="", extra_sections="", observe=True):
    return "\n".join([PRELUDE, gen_observers(module), extra_decls,
                      gen_main(module, struct_name, param_tuples, alphabets, extra_sections, observe)])


# ------------------------------------------------------------------ building
class Scratch(object):
    def __init__(self):
        self.dir = tempfile.mkdtemp(prefix="embverif-")

    def __enter__(self):
        return self

    def __exit__(self, *a):
        shutil.rmtree(self.dir, ignore_errors=True)

    def path(self, name):
        return os.path.join(self.dir, name)


def compile_headers(files, main, traits=True):
    """Front end + back end for every module in files reachable from main.
    Returns (headers dict name->text, error text or None, exception or None)."""
    e = common.emb()
    ir, errors, ex = common.front_end(files, main, keep_cache=False)
    if ex is not None:
        return None, None, ex
    if errors:
        return None, common.first_error_text(errors), None
    headers = {}
    # the main module and each import need their own header; generate_header handles module[0] only
    hdr, herr, hex_ = common.back_end(ir, traits)
    if hex_ is not None:
        return None, None, hex_
    if herr:
        return None, common.first_error_text(herr), None
    headers[main + ".h"] = hdr
    for name in files:
        if name != main:
            ir2, errors2, ex2 = common.front_end(files, name, keep_cache=False)
            if ex2 is not None:
                return None, None, ex2
            if errors2:
                return None, common.first_error_text(errors2), None
            h2, herr2, hex2 = common.back_end(ir2, traits)
            if hex2 is not None:
                return None, None, hex2
            headers[name + ".h"] = h2
    return headers, None, None


def build_and_run(scratch, headers, main_header, driver_text, cxx="g++", std="c++14", flags=(), run=True,
                  syntax_only=False, timeout=600, tag="drv"):
    """Writes headers + driver into scratch, compiles, optionally runs.  Returns dict."""
    for name, text in headers.items():
        os.makedirs(os.path.dirname(scratch.path(name)), exist_ok=True)
        with open(scratch.path(name), "w") as f:
            f.write(text)
    # the driver includes "prog.emb.h"
    with open(scratch.path("prog.emb.h"), "w") as f:
        f.write('#include "%s"\n' % main_header)
    src = scratch.path(tag + ".cc")
    with open(src, "w") as f:
        f.write(driver_text)
    exe = scratch.path(tag + ".bin")
    cmd = [cxx, "-std=" + std, "-I", common.REPO, "-I", scratch.dir, "-w"] + list(flags)
    if syntax_only:
        cmd += ["-fsyntax-only", src]
    else:
        cmd += ["-O0", src, "-o", exe]
    r = subprocess.run(cmd, capture_output=True, text=True, timeout=timeout)
    res = {"compile_rc": r.returncode, "compile_err": r.stderr.replace(scratch.dir, "<scratch>")[-4000:],
           "cmd": " ".join(cmd).replace(scratch.dir, "<scratch>")}
    if r.returncode != 0 or syntax_only or not run:
        return res
    env = dict(os.environ)
    env["ASAN_OPTIONS"] = "detect_leaks=0:abort_on_error=0"
    env["UBSAN_OPTIONS"] = "print_stacktrace=1:halt_on_error=1"
    rr = subprocess.run([exe], capture_output=True, timeout=timeout, env=env)
    res["run_rc"] = rr.returncode
    res["stdout"] = rr.stdout
    # addresses and pids vary from run to run (ASLR); a replayed unit must report the same text
    err = rr.stderr.decode("utf-8", "replace").replace(scratch.dir, "<scratch>")
    err = re.sub(r"0x[0-9a-f]{6,}", "0x?", err)
    err = re.sub(r"==\d+==", "==pid==", err)
    res["stderr"] = err[-6000:]
    return res
