"""Deviation-bounded stateless explorer for sequential generators (DESIGN 2.1).

A generator is a deterministic function g(ch) that calls ch.choose(n, tag) at
each choice point; alternative 0 is the default.  enumerate(g, bound) yields
(choice_vector, artefact) for every vector with at most `bound` non-default
answers, each exactly once, fewest deviations first within each subtree.
A choice vector is a list of [tag, alt] for the non-default answers only, in
the order they were taken; it is the replay artefact.
"""


class ReplayError(Exception):
    pass


class Chooser(object):
    def __init__(self, forced):
        # forced: dict position -> alt   (positions are choice-point indices)
        self.forced = forced
        self.trace = []      # (tag, n, alt)

    def choose(self, n, tag):
        i = len(self.trace)
        alt = self.forced.get(i, 0)
        if alt >= n:
            raise ReplayError("choice %d (%s): alt %d out of range %d" % (i, tag, alt, n))
        self.trace.append((tag, n, alt))
        return alt

    def pick(self, options, tag):
        return options[self.choose(len(options), tag)]


def run(g, forced):
    ch = Chooser(dict(forced))
    art = g(ch)
    for i in forced:
        if i >= len(ch.trace):
            raise ReplayError("forced position %d beyond trace %d" % (i, len(ch.trace)))
    return ch, art


def enumerate_vectors(g, bound, stats=None):
    """Yields (forced_dict, trace, artefact)."""
    def rec(forced, start, cost):
        ch, art = run(g, forced)
        yield dict(forced), ch.trace, art
        if cost >= bound:
            return
        for i in range(start, len(ch.trace)):
            tag, n, alt = ch.trace[i]
            for a in range(1, n):
                f2 = dict(forced)
                f2[i] = a
                for r in rec(f2, i + 1, cost + 1):
                    yield r
    for r in rec({}, 0, 0):
        if stats is not None:
            stats["vectors"] = stats.get("vectors", 0) + 1
            k = len(r[0])
            stats.setdefault("by_deviations", {})
            stats["by_deviations"][k] = stats["by_deviations"].get(k, 0) + 1
            stats["max_choice_points"] = max(stats.get("max_choice_points", 0), len(r[1]))
        yield r


def vector_of(forced, trace):
    return [[trace[i][0], i, forced[i]] for i in sorted(forced)]


def forced_of(vector):
    return {i: a for (_t, i, a) in vector}


def replay(g, vector):
    forced = forced_of(vector)
    ch, art = run(g, forced)
    for (t, i, a) in vector:
        if ch.trace[i][0] != t:
            raise ReplayError("tag mismatch at %d: %s vs %s" % (i, ch.trace[i][0], t))
    return art
