"""Earley recogniser (independent of LR theory) with viable-prefix queries.

Grammar: list of (lhs, rhs_tuple); symbols not on any lhs are terminals.
For a *reduced* grammar (every nonterminal reachable and productive) every item
in an Earley set is part of some derivation of a sentence extending the input
read so far, so:
  viable_next(chart)  = terminals right after a dot in the last set
  is_sentence(chart)  = a completed start item with origin 0 in the last set
"""


class Earley(object):
    def __init__(self, productions, start):
        self.prods = [(l, tuple(r)) for l, r in productions]
        self.start = start
        self.nonterminals = {l for l, _ in self.prods}
        self.by_lhs = {}
        for i, (l, r) in enumerate(self.prods):
            self.by_lhs.setdefault(l, []).append(i)
        # nullable
        self.nullable = set()
        changed = True
        while changed:
            changed = False
            for l, r in self.prods:
                if l not in self.nullable and all(s in self.nullable for s in r):
                    self.nullable.add(l)
                    changed = True
        # productive / reachable (for the reduced-grammar precondition)
        prod = set()
        changed = True
        while changed:
            changed = False
            for l, r in self.prods:
                if l not in prod and all((s not in self.nonterminals) or s in prod for s in r):
                    prod.add(l)
                    changed = True
        self.productive = prod
        reach = {start}
        todo = [start]
        while todo:
            n = todo.pop()
            for i in self.by_lhs.get(n, ()):
                for s in self.prods[i][1]:
                    if s in self.nonterminals and s not in reach:
                        reach.add(s)
                        todo.append(s)
        self.reachable = reach
        self.reduced = (start in self.nonterminals and
                        all(n in prod for n in reach))

    def _close(self, chart, k, items):
        """Completes/predicts within set k.  items: initial list of (p, dot, origin)."""
        cur = set()
        order = []
        todo = list(items)
        prods = self.prods
        while todo:
            it = todo.pop()
            if it in cur:
                continue
            cur.add(it)
            order.append(it)
            p, dot, origin = it
            rhs = prods[p][1]
            if dot < len(rhs):
                sym = rhs[dot]
                if sym in self.nonterminals:
                    for q in self.by_lhs[sym]:
                        todo.append((q, 0, k))
                    if sym in self.nullable:
                        todo.append((p, dot + 1, origin))
            else:
                lhs = prods[p][0]
                src = cur if origin == k else chart[origin][0]
                for (p2, d2, o2) in list(src):
                    r2 = prods[p2][1]
                    if d2 < len(r2) and r2[d2] == lhs:
                        todo.append((p2, d2 + 1, o2))
        return (frozenset(cur), k)

    def begin(self):
        chart = []
        init = [(q, 0, 0) for q in self.by_lhs.get(self.start, ())]
        chart.append(self._close(chart, 0, init))
        return chart

    def step(self, chart, token):
        """Returns a new chart (list) extended by one token, or None if no item scans it."""
        k = len(chart)
        last = chart[-1][0]
        seeds = []
        for (p, dot, origin) in last:
            rhs = self.prods[p][1]
            if dot < len(rhs) and rhs[dot] == token:
                seeds.append((p, dot + 1, origin))
        if not seeds:
            return None
        new = list(chart)
        new.append(None)
        new[k] = self._close(new, k, seeds)
        return new

    def viable_next(self, chart):
        out = set()
        for (p, dot, origin) in chart[-1][0]:
            rhs = self.prods[p][1]
            if dot < len(rhs) and rhs[dot] not in self.nonterminals:
                out.add(rhs[dot])
        return out

    def is_sentence(self, chart):
        for (p, dot, origin) in chart[-1][0]:
            if origin == 0 and self.prods[p][0] == self.start and dot == len(self.prods[p][1]):
                return True
        return False

    def recognise(self, tokens):
        """(accepted, error_index, expected_at_error).  Only meaningful for reduced grammars."""
        chart = self.begin()
        for i, t in enumerate(tokens):
            nxt = self.step(chart, t)
            if nxt is None:
                return False, i, self.viable_next(chart) | ({"$"} if self.is_sentence(chart) else set())
            chart = nxt
        if self.is_sentence(chart):
            return True, None, None
        return False, len(tokens), self.viable_next(chart)
