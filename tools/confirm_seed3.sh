#!/bin/sh
# usage: tools/confirm_seed2.sh C20 A C   -- wave 3: /tmp/wt3/C20-out/patchA.diff -> /verif/seeded/C20-C/
prop="$1"; ab="$2"; newid="$3"
wt=/tmp/wt3/$prop; out=/tmp/wt3/$prop-out
[ -d "$wt" ] || git -C /repo worktree add --detach "$wt" HEAD >/dev/null 2>&1
cd "$wt" || exit 2
git checkout -q -- . ; git clean -fdq
/venv/bin/python "$out/demo$ab.py" >/tmp/wt3/$prop-out/confirm-clean$ab.log 2>&1; rc_clean=$?
git apply "$out/patch$ab.diff" || { echo "patch does not apply"; exit 2; }
/verif/tools/baseline.sh "$wt" > /tmp/wt3/$prop-out/confirm-base$ab.log 2>&1; rc_base=$?
/venv/bin/python "$out/demo$ab.py" >/tmp/wt3/$prop-out/confirm-mut$ab.log 2>&1; rc_mut=$?
git checkout -q -- . ; git clean -fdq
echo "$prop-$newid: demo clean rc=$rc_clean, baseline with patch rc=$rc_base ($(head -1 /tmp/wt3/$prop-out/confirm-base$ab.log)), demo with patch rc=$rc_mut"
if [ $rc_clean -eq 0 ] && [ $rc_base -eq 0 ] && [ $rc_mut -ne 0 ]; then
  d=/verif/seeded/$prop-$newid; mkdir -p "$d"
  cp "$out/patch$ab.diff" "$d/patch.diff"; cp "$out/demo$ab.py" "$d/demo.py"; cp "$out/notes.md" "$d/notes.md" 2>/dev/null
  tail -5 /tmp/wt3/$prop-out/confirm-mut$ab.log > "$d/demo_output_with_patch.txt"
  echo "CONFIRMED -> $d"
else
  echo "NOT CONFIRMED"; tail -5 /tmp/wt3/$prop-out/confirm-clean$ab.log; tail -3 /tmp/wt3/$prop-out/confirm-mut$ab.log
fi
