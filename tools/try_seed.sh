#!/bin/sh
# usage: tools/try_seed.sh <patch.diff> <tier> C08 [C09 ...]   -- applies the patch to /repo, runs checks, reverts.
patch="$1"; tier="$2"; shift 2
cd /repo || exit 2
if ! git diff --quiet; then echo "repo dirty"; exit 2; fi
git apply "$patch" || { echo "patch does not apply"; exit 2; }
trap 'git -C /repo checkout -- .' EXIT
cd /verif
for c in "$@"; do
  out=$(./check "$c" --tier "$tier" 2>&1); rc=$?
  echo "== $c rc=$rc"; echo "$out" | grep -E "VIOLATION|key=|INTERNAL|KNOWN" | head -6; echo "$out" | tail -1
done
