#!/bin/sh
# Runs the pinned baseline suite on a tree (default /repo) and compares with BASELINE.json stable_pass.
tree="${1:-/repo}"
out="$(mktemp /tmp/baseline-XXXXXX.xml)"
(cd "$tree" && /venv/bin/python -m pytest -ra -q -p no:cacheprovider --timeout=900 --continue-on-collection-errors --junitxml="$out" >/dev/null 2>&1)
/venv/bin/python - "$out" <<'PY'
import json, sys, xml.etree.ElementTree as ET
base = set(json.load(open('/root/.vp/BASELINE.json'))['stable_pass'])
root = ET.parse(sys.argv[1]).getroot()
passed, failed = set(), set()
for tc in root.iter('testcase'):
    tid = (tc.get('classname') or '') + '::' + (tc.get('name') or '')
    if tc.find('failure') is not None or tc.find('error') is not None:
        failed.add(tid)
    elif tc.find('skipped') is None:
        passed.add(tid)
passed -= failed
missing = sorted(base - passed)
print("baseline: %d/%d stable tests pass; %d regressed" % (len(base & passed), len(base), len(missing)))
for m in missing[:10]:
    print("  REGRESSED", m)
sys.exit(1 if missing else 0)
PY
rc=$?
rm -f "$out"
exit $rc
