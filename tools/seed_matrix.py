#!/usr/bin/env python3
"""Runs every seeded mutation against the quick tier of its own property's check (and extra checks listed
in EXTRA) on a scratch worktree of /repo, and writes seeded/<id>/meta.json + seeded/MATRIX.md.
usage: tools/seed_matrix.py [seed ids...]"""
import json, os, re, subprocess, sys, time, shutil
VERIF = os.path.dirname(os.path.dirname(os.path.abspath(__file__)))
EXTRA = {"C03-F": ["C04"], "C01-E": ["C05", "C07"], "C04-E": ["C06"], "C06-F": ["C04"], "C15-F": ["C07"], "C13-F": ["C16"], "C02-F": ["C03"], "C03-E": ["C02"], "C05-F": ["C01"], "C15-E": ["C16"], "C14-E": ["C07"], "C06-C": ["C19"], "C13-C": ["C16"], "C08-D": ["C17"], "C05-C": ["C04"], "C05-B": ["C07"], "C07-A": ["C19"], "C07-B": ["C01"], "C04-B": ["C05"], "C17-B": ["C18"], "C13-A": ["C12"], "C02-A": ["C03"], "C19-B": ["C03"]}
NEEDS = json.load(open(os.path.join(VERIF, "seeded", "needs.json"))) if os.path.exists(os.path.join(VERIF, "seeded", "needs.json")) else {}

def main():
    ids = sys.argv[1:] or sorted(d for d in os.listdir(os.path.join(VERIF, "seeded")) if os.path.isdir(os.path.join(VERIF, "seeded", d)))
    wt = "/tmp/seedrepo"
    out = "/tmp/seedout"
    subprocess.run(["git", "-C", "/repo", "worktree", "remove", "--force", wt], capture_output=True)
    subprocess.run(["git", "-C", "/repo", "worktree", "add", "--detach", wt, "HEAD"], check=True, capture_output=True)
    rows = []
    try:
        for sid in ids:
            d = os.path.join(VERIF, "seeded", sid)
            patch = os.path.join(d, "patch.diff")
            subprocess.run(["git", "-C", wt, "checkout", "-q", "--", "."], check=True)
            r = subprocess.run(["git", "-C", wt, "apply", patch], capture_output=True, text=True)
            meta = {"id": sid, "property": sid.split("-")[0], "patch": "patch.diff", "demonstration": "demo.py"}
            if r.returncode != 0:
                meta["status"] = "patch does not apply to the current tree: " + r.stderr[:200]
                rows.append((sid, {}, meta["status"]))
                json.dump(meta, open(os.path.join(d, "meta.json"), "w"), indent=1)
                continue
            results = {}
            for chk in [meta["property"]] + EXTRA.get(sid, []):
                env = dict(os.environ, VERIF_REPO=wt, VERIF_OUT=out, VERIF_JOBS=os.environ.get("VERIF_JOBS", "8"))
                t0 = time.time()
                rr = subprocess.run([os.path.join(VERIF, "check"), chk, "--tier", "quick"], capture_output=True, text=True, env=env)
                keys = sorted(set(re.findall(r"^  key=(\S+)", rr.stdout, re.M)))
                results[chk] = {"exit": rr.returncode, "detected": rr.returncode == 1, "violation_keys": keys[:6], "wall_s": round(time.time() - t0)}
                print(sid, chk, results[chk], flush=True)
            meta["what_i_ran"] = ["tools/confirm_seed.sh (baseline suite passes with the patch; demo fails with it and passes without)",
                                  "tools/seed_matrix.py (quick tier of the listed checks on a scratch worktree with the patch applied)"]
            meta["needs_to_manifest"] = NEEDS.get(sid, "see notes.md")
            meta["checks"] = results
            json.dump(meta, open(os.path.join(d, "meta.json"), "w"), indent=1)
            rows.append((sid, results, ""))
    finally:
        subprocess.run(["git", "-C", "/repo", "worktree", "remove", "--force", wt], capture_output=True)
        shutil.rmtree(out, ignore_errors=True)
    with open(os.path.join(VERIF, "seeded", "MATRIX.md"), "a") as f:
        f.write("\n## run at %s\n\n| seed | check | detected | keys |\n|---|---|---|---|\n" % time.strftime("%Y-%m-%d %H:%M"))
        for sid, results, note in rows:
            if note:
                f.write("| %s | - | - | %s |\n" % (sid, note))
            for chk, r in results.items():
                f.write("| %s | %s | %s | %s |\n" % (sid, chk, "yes" if r["detected"] else "NO", ", ".join(r["violation_keys"])[:150]))

main()
