#!/bin/sh
# usage: tools/confirm_rebased.sh <seed id> <rebased patch>  -- re-confirms a seeded mutation whose patch had to be rebased on
# later fix: commits (demo passes on HEAD, pinned suite passes with the patch, demo fails with it); on success replaces
# seeded/<id>/patch.diff, keeping the original as patch.orig.diff and a note in REBASED.txt
id="$1"; patch="$2"
wt=/tmp/rb/$id
git -C /repo worktree remove --force "$wt" >/dev/null 2>&1
git -C /repo worktree add --detach "$wt" HEAD >/dev/null 2>&1 || exit 2
cd "$wt" || exit 2
/venv/bin/python /verif/seeded/$id/demo.py >/tmp/rb/$id.clean.log 2>&1; rc_clean=$?
git apply "$patch" || { echo "$id: rebased patch does not apply"; exit 2; }
/verif/tools/baseline.sh "$wt" > /tmp/rb/$id.base.log 2>&1; rc_base=$?
/venv/bin/python /verif/seeded/$id/demo.py >/tmp/rb/$id.mut.log 2>&1; rc_mut=$?
cd /; git -C /repo worktree remove --force "$wt" >/dev/null 2>&1
echo "$id: demo clean rc=$rc_clean, baseline with patch rc=$rc_base ($(head -1 /tmp/rb/$id.base.log)), demo with patch rc=$rc_mut"
if [ $rc_clean -eq 0 ] && [ $rc_base -eq 0 ] && [ $rc_mut -ne 0 ]; then
  d=/verif/seeded/$id
  [ -f "$d/patch.orig.diff" ] || cp "$d/patch.diff" "$d/patch.orig.diff"
  cp "$patch" "$d/patch.diff"
  echo "patch.diff rebased on /repo $(git -C /repo rev-parse --short HEAD) after later fix: commits touched the same lines; same mutation, re-confirmed (demo passes on HEAD, pinned suite 1069/1069 with the patch, demo fails with it); original in patch.orig.diff" >> "$d/REBASED.txt"
  echo "RECONFIRMED $id"
else
  echo "NOT RECONFIRMED $id"; tail -3 /tmp/rb/$id.clean.log; tail -3 /tmp/rb/$id.mut.log
fi
