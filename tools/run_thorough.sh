#!/bin/sh
# Runs the thorough tier of the given checks (default: all) one after another; evidence/replays go to $VERIF_OUT
# (default /tmp/thorough-out) so that the committed quick-tier evidence is not overwritten.
# usage: VERIF_JOBS=10 tools/run_thorough.sh [C05 C08 ...]
here="$(cd "$(dirname "$0")/.." && pwd)"
cd "$here"
export VERIF_OUT="${VERIF_OUT:-/tmp/thorough-out}"
mkdir -p "$VERIF_OUT"
checks="$*"
[ -n "$checks" ] || checks="C14 C09 C12 C13 C15 C08 C10 C05 C19 C11 C17 C16 C18 C02 C03 C07 C06 C20 C01 C04"
for c in $checks; do
  start=$(date +%s)
  ./check "$c" --tier thorough > "$VERIF_OUT/$c.log" 2>&1
  rc=$?
  end=$(date +%s)
  echo "THOROUGH $c rc=$rc wall=$((end-start))s $(tail -1 "$VERIF_OUT/$c.log")"
  grep -E "^VIOLATION|^  key=|^KNOWN-FINDING|INTERNAL" "$VERIF_OUT/$c.log" | cut -c1-220 | head -12
done
