#!/usr/bin/env python3
"""Regenerates MANIFEST.json from the table below (kept valid at all times)."""
import json, os
HERE = os.path.dirname(os.path.dirname(os.path.abspath(__file__)))
PROPS = [json.loads(l)["id"] for l in open(os.path.join(HERE, "properties.jsonl"))]

# id -> (category, technique, text, note, design_ref)
CHECKS = {
 "C15": ("exploration",
         "bounded-exhaustive enumeration of all digraphs on <=3/<=4 nodes x 7 realisations, run through the real front end, against a reference SCC/topological oracle",
         "Every dependency graph on up to 3 (quick) / 4 (thorough) nodes incl. self-loops, in every source order, realised as virtual fields, offsets, conditions, sizes, enum values, imports and a mixed form, is compiled by the real front end; cycle error iff a reference SCC computation finds a cycle, reported groups = SCCs, termination under a CPU watchdog, fields_in_dependency_order is a stable topological permutation.",
         "Trusted: reference SCC/topological code (40 lines), CPython. Bounded: graphs of <=4 nodes; larger cycles are outside the bound.",
         "DESIGN.md section 3, C15"),
 "C09": ("model_checking",
         "explicit-state exploration of the product automaton (shipped tables x regenerated tables), all reachable state pairs x all terminals/nonterminals; traces replayed through both real parsers",
         "The cached tables embossc loads and tables regenerated from module_ir.PRODUCTIONS + error_examples are explored as a product automaton from (0,0) for both start symbols; every reachable pair agrees on every terminal (action kind, production, error code incl. default errors, expected set) and goto, which by induction on parser steps gives identical accept/reject, tree, error position and message on every token sequence. doc/grammar.md productions and token table are compared with the source. Corpus files and their token mutants are replayed through both parsers.",
         "Trusted: lr1.Parser.parse is driven only by action/goto/default_errors; the regenerated parser is the reference (its own correctness is C08).",
         "DESIGN.md section 3, C09"),
 "C08": ("model_checking",
         "explicit-state: every grammar of bounded families x all strings up to a length bound, and every state x every terminal of the generated Emboss automaton, executed on the real lr1.Grammar/Parser against language fixpoints and an Earley recogniser",
         "All 12 383 (quick) / 136 k (thorough) grammars over {S,A}x{a,b} with <=3/<=4 productions, all 41 727 / 637 k grammars over {S,A,B}x{a}, a zoo of 32 textbook grammars, each with all strings up to length 5-8: conflict report agrees with a plain canonical LR(1) construction, conflict-free => accept iff member, tree is a derivation, error index/expected set = viable-prefix oracle, no string with two derivations. Emboss grammar (module and expression start symbols): all 24 035 states via shortest access strings x all terminals + end of input against Earley; all 235 506 non-error action entries exercised.",
         "Trusted: vk/cfg.py (language/derivation/viable-prefix fixpoints, plain LR(1)), vk/earley.py; cross-checked against each other on every run. Viable-prefix clause compared only on reduced grammars. Strings are bounded in length.",
         "DESIGN.md section 3, C08"),
 "C10": ("model_checking",
         "exhaustive enumeration of all short texts over a boundary alphabet and explicit-state exploration of the indentation stack, run through the real tokenizer against a tokenizer rebuilt from doc/grammar.md",
         "Every single-line string up to length 5 (quick) / 6 (thorough) over a 22-character boundary alphabet, all strings <=2/3 over printable ASCII, all literal/pattern examples extended and paired, all <=4/5-line indentation sequences (open-indentation stacks as explicit states), all numeric shapes over {0,1,_} x {'',0x,0b,0X,0B} up to 9/11 characters, all name shapes, all 11 line terminators: the real token list (symbols, texts, line/column ranges) equals that of a reference tokenizer built from the documented pattern table; slices, gaps, newline and Indent/Dedent invariants checked directly; error iff reference error at the same location; Number/name classes equal the language reference's prose rules.",
         "Trusted: vk/tokref.py, vk/grammardoc.py. Texts are bounded in length; characters outside the alphabets are covered only by the ASCII/extension sweeps.",
         "DESIGN.md section 3, C10"),
 "C05": ("exploration",
         "bounded-exhaustive enumeration of expressions (depth<=2/3 over a leaf alphabet) x all environments of their small-domain variables, real front end annotations checked by an independent big-integer evaluator",
         "Every expression up to depth 1 over 33 leaves and depth 2 (thorough: 3) over reduced leaf sets is compiled by the real front end; for every IR node and every environment (all values of <=20-value domains, corner alphabets for 8/32/64-bit leaves) min<=v<=max, v congruent to modular_value mod modulus, inferred constants exact, $upper_bound/$lower_bound true bounds, every accepted run-time operation fits int64 or uint64 together with its operands as values, and intervals are attained when no variable repeats.",
         "Trusted: the evaluator in checks/c05.py (cross-checked against the generator's own AST evaluator). Wide leaves on corner alphabets only; back-end type selection is exercised by the C++ checks.",
         "DESIGN.md section 3, C05"),
 "C13": ("exploration",
         "bounded-exhaustive enumeration of operator x operand-type tuples x positions, run through the real front end against a documented signature table",
         "Every operator and function applied to every operand tuple over a 12-atom type alphabet (integer/boolean/enum constants, fields and parameters, a same-named enum from an import, struct and array fields), placed in each of 14 positions (offset, size, three array-dimension positions, condition, field and struct [requires], virtual value, integer and enum parameter argument, enum value, maximum_bits, is_signed); thorough adds depth-2 compositions. Accept iff the documented signature and the position's required type are met; rejected cases must produce a located, non-synthetic error inside the construct; no exception may escape.",
         "Trusted: signature table in checks/c13.py transcribed from doc/language-reference.md. Unspecified (not compared): ordering comparisons of two values of one enum, enum-valued enum values, struct/array operands of ?: in alias position, $present(parameter) verdict.",
         "DESIGN.md section 3, C13"),
 "C01": ("exploration",
         "deviation-bounded exhaustive enumeration of .emb programs x parameter tuples x prefix-closed buffer sets, executed through the real compiler and g++, compared observation by observation with a reference semantics on the generator's AST",
         "All EmbSpace programs within 1 (quick) / 2 (thorough) feature deviations of the default program (21 field types, 8 start forms, 16 existence conditions, attributes, 14 virtual-field forms, parameters, structure requires, byte order) are compiled with the real embossc pipeline and g++; for every parameter tuple and every buffer of every length over per-position alphabets (control fields exhaustive) the view's Ok/IsComplete/SizeIsKnown/size, every field's presence (unknown/true/false), Ok, value, array element counts and elements, recursively through nested structures, equal the reference semantics; everything definite at a prefix keeps its value when a byte is appended.",
         "Trusted: vk/refsem.py (from the language and C++ references), vk/embgen.py printer, g++ 12, x86-64 LE host. Programs further than 2 deviations from the default and payload values outside the alphabets are not covered. Known findings: array-partial-ok, signed-enum-narrow.",
         "DESIGN.md section 3, C01"),
 "C02": ("exploration",
         "exhaustive enumeration of (offset,width,container,byte order,type) layouts x content alphabets (all 2^c for c<=16) executed on the generated views against a naive one-bit-at-a-time reader",
         "Every (offset, width) in bits containers of 8,16,24,64 (quick) / 8..64 (thorough) bits, both byte orders, for UInt, Int, Bcd, signed and unsigned enums, Flag and Float, plus byte-level fields at byte offsets 0-8 of sizes 1-8 on bases of every alignment 0-7 (aligned and unaligned view factories): Ok() and Read() equal the reference decode of exactly the covered bits; >10^8 reads per run.",
         "Trusted: cpp/ref_bits.h. Containers wider than 16 bits use per-field pattern alphabets (all 2^w for w<=12, boundary/single-bit/Bcd-nibble alphabets above). Little-endian x86-64 host only. Known finding: signed-enum-narrow.",
         "DESIGN.md section 3, C02"),
 "C03": ("model_checking",
         "explicit-state: state = buffer contents, transition = CouldWriteValue/TryToWrite of each candidate on each field of each layout, executed on the generated views against a put_bits/representability model; virtual-field writes against the affine pre-image",
         "Same layouts as C02; for every field, initial contents (00, FF, 5A, every single bit; all 256 for 1-byte containers) x candidate values (all of min-2..max+2 for w<=8, boundary alphabet above) as int64_t/uint64_t/ValueType x complete and truncated store: CouldWriteValue iff representable, TryToWrite iff additionally present, afterwards the buffer equals put_bits(before) bit for bit and Read()==v, failure leaves the buffer unchanged. Aliases (incl. through a nested struct) and all add/subtract shapes to depth 2 (thorough 3), direct and chained through writeable virtuals, with [requires] on virtual and target: success iff the unique pre-image exists and is writable, target and virtual read back.",
         "Trusted: cpp/ref_bits.h, affine inverse computed by the generator. Known finding: signed-enum-narrow.",
         "DESIGN.md section 3, C03"),
 "C04": ("exploration",
         "deviation-bounded exhaustive program/buffer enumeration with every checked API call, executed under ASan+UBSan with runtime checks enabled",
         "The C01 program space (<=1 / <=2 deviations; g++, thorough also clang++) x parameter tuples x buffers (cap 1024/4096) on exact-size heap allocations, every 8th buffer also at bases +1..+7 and through MakeAligned...View<8>: all observations, 22 write candidates on every writable field incl. virtuals and array elements, 5 text renderings incl. partial output, UpdateFromText of the produced and 21 malformed texts, TryToCopyFrom/Equals against earlier buffers. The process must exit 0 with empty stderr (no sanitizer report, no EMBOSS_CHECK/DCHECK).",
         "Trusted: ASan/UBSan of g++ 12 / clang++ 14. The driver follows the documented discipline (Read only when has_x is true and Ok()). Known finding: virtual-write-inverse-overflow.",
         "DESIGN.md section 3, C04"),
 "C06": ("exploration",
         "deviation-bounded exhaustive program/buffer/option enumeration: write-zero-read-write fixpoint in the driver, emitted text parsed and compared with the reference semantics; exhaustive integer codec sweep",
         "EmbSpace programs (<=1 / <=2 deviations) x every Ok buffer x all 18 re-readable option sets: UpdateFromText(WriteToString(v,o)) into a zeroed buffer succeeds and re-renders identically; the single-line text is parsed and its field set (present, non-Skip), dependency order and values equal refsem. All values of (u)int8/16 and boundary values of (u)int32/64 x 3 bases x grouping round-trip; 30 malformed numbers are rejected with the destination untouched.",
         "Trusted: vk/refsem.py, the text reader in checks/c06.py. Leniency of DecodeInteger (0X, stray underscores) is not a target. Known finding: signed-enum-narrow.",
         "DESIGN.md section 3, C06"),
 "C20": ("model_checking",
         "explicit-state over (source buffer, destination buffer): all ordered pairs of a constructed buffer set for Equals, all destination lengths and overlap offsets for TryToCopyFrom, on the real generated views under ASan",
         "EmbSpace programs (<=1 / <=2 deviations) x a buffer set containing equal, covered-bit-differing, padding-only-differing and truncated buffers (every single-byte flip of 12/16 bases): Equals on ALL ordered pairs, both directions, equals the reference logical equality; TryToCopyFrom from every source into destinations of every length 0..L+2 (0xEE-filled): result, copied bytes, untouched tail, destination Ok and Equals source; overlapping copies at offsets -3..+3 behave like memmove.",
         "Trusted: vk/refsem.py logical_equal; view Ok()/SizeInBytes() as decided by C01 inside the copy oracle. NaN float payloads are unspecified for Equals.",
         "DESIGN.md section 3, C20"),
 "C19": ("exploration",
         "deviation-bounded exhaustive enumeration of enum definitions, accepted ones compiled and every helper checked in a generated driver against the generator's AST",
         "Every enum within 2 (quick) / 3 (thorough) deviations of a default (1-3 enumerators over name, value incl. 64-bit extremes and duplicates, is_signed, maximum_bits, enum_case on the enum / module / value): underlying signedness and width, every C++ spelling with its exact value, TryToGetEnumFromName (declared names only; other names, kCamel spellings, '', numbers, nullptr rejected), TryToGetNameFromEnum (first declared name; null for undeclared neighbours and range extremes), EnumIsKnown, and an enum field of width maximum_bits writes and reads back every in-range value; enums are packed 25 per header so that one definition influencing another is detected.",
         "Trusted: the value/spelling model in checks/c19.py. Known findings: collide:kCamelCase, signed-enum-narrow.",
         "DESIGN.md section 3, C19"),
 "C07": ("exploration",
         "deviation-bounded exhaustive enumeration of accepted programs, identifier shapes, enums, namespaces and imports; each compiled by g++/clang++ -fsyntax-only with a driver that names every member, plus static_asserts of every exposed constant against the IR",
         "EmbSpace programs (<=1 / <=2 deviations) under c++11/c++17 (thorough: 11/14/17, g++ and clang++), enum traits on and off; all ordered pairs of 11 field names and of 7 type names adjacent to generated identifiers (plus a type nested in itself and a field named like its type); enums from the C19 space; 5 namespace forms with an import whose types, enums, parameters and constants are used through the alias. The driver instantiates every view, accessor, presence test, checked and unchecked read/write, copy/equals, text method, enum helper; every constant (Intrinsic/Max/Min sizes, constant virtuals, enumerators) is static_asserted equal to the value the front end computed.",
         "Trusted: g++ 12 / clang++ 14. Names rejected by the compiler are only counted. Known findings: collide:has_x, collide:FooView, collide:backing_, collide:kCamelCase, choice-constant-condition-static-assert.",
         "DESIGN.md section 3, C07"),
 "C18": ("exploration",
         "deviation-bounded exhaustive enumeration of accepted programs plus corpus and import/big-constant families; IR round-tripped through JSON and compared structurally, headers compared byte for byte, split pipeline run as subprocesses",
         "Every accepted EmbSpace program (<=1 / <=2 deviations), the 31 testdata files, an import family with same-named types and enums in two modules, and a module with constants beyond 64 bits: from_json(to_json(ir)) equals ir under a structural comparer (set/unset status, Python type, list length, source-location flags; not Message.__eq__), to_json is idempotent, generate_header of the re-read IR is byte-identical, and for a subset embossc equals emboss_front_end | emboss_codegen_cpp run as separate processes. Reports node-kind x field coverage (all 120 IR fields set at least once).",
         "Trusted: the comparer in checks/c18.py. Subprocess equivalence on 8 (quick) / 40+ (thorough) programs only.",
         "DESIGN.md section 3, C18"),
 "C16": ("fault_enumeration",
         "systematic single-fault enumeration: every token-level deletion, duplication, replacement and insertion at every token position of every base program, all truncations, all line-terminator substitutions, all short raw strings, plus catalogues; each run through the real front and back end",
         "For 48 (quick) / all (thorough) EmbSpace programs and corpus files: at every token position delete, duplicate, replace by and insert each of 43 alphabet tokens; truncate at every token boundary and every character of the last line; re-indent every line 5 ways; substitute each of 8 line terminators with an error on the last line; all strings of length <=3 over a 22-character alphabet (NUL, BOM, multi-byte UTF-8, control characters); 100+ catalogued odd programs incl. multi-module ones; CLI runs of embossc and emboss-format. No exception may escape; the result is (IR and header) xor non-empty error groups whose messages name a given file, a position inside it (never 0:0, never synthetic), render with and without colour and quote the right source line; 10 s CPU watchdog.",
         "Trusted: the oracle in checks/c16.py; the real tokenizer only locates token boundaries of valid bases. Double faults are thorough-tier only for the shortest bases. Six open findings (crashes and 0:0 locations) are listed in known_findings.json.",
         "DESIGN.md section 3, C16"),
 "C17": ("model_checking",
         "explicit-state exploration of the process-wide mutable state: all operation histories up to a length bound executed in forks of a pristine process and compared with fresh-process results; fresh CLI processes across a PYTHONHASHSEED alphabet",
         "All histories of length <=3 (quick) / <=4 (thorough) over 10 operations (compile / JSON-split compile / format over six source sets incl. anonymous bits, imports, syntax errors, multi-error modules, identical text under another name, back-end attribute errors), each in a fork of a process that has imported the compiler and compiled nothing: every step's IR JSON, header and rendered diagnostics equal the fresh-process result up to renumbering of reserved anonymous identifiers; canonical process states (module cache keys, anonymous counter, reserved-word table) are recorded. embossc and emboss-format as fresh processes under 8/32 hash seeds (offset by VERIF_SEED) on eight source sets: identical exit status, stdout, stderr and header; identical output for every order and multiplicity of import directories holding identical copies.",
         "PYTHONHASHSEED is a bounded alphabet of a 2^32 space. Outputs compared up to anonymous-identifier numbering.",
         "DESIGN.md section 3, C17"),
 "C11": ("exploration",
         "exhaustive enumeration of the accepted expression language up to a token bound (by extending viable prefixes on the real parser) and deviation-bounded dressed programs, each formatted by the real formatter under indent widths 1-8 and compared token-wise and IR-wise",
         "All 15 264 (quick, <=6 tokens) / 96 870 (thorough, <=7) token sequences the real expression parser accepts over a 19-symbol alphabet, as virtual-field value, field offset and attribute value; EmbSpace programs (<=1 deviation) x 9 dressings (comments, duplicate comments, documentation, blank lines, odd spacing, trailing blanks, tabs, attribute lines) x indent 1-8; types nested 1-8 deep x indent 1-8; 45 corpus files x indent 1-8. Formatting never raises, the output tokenizes and parses, token streams are equal up to whitespace / blank lines / trailing blanks in comments and documentation, module_ir.build_ir is equal after stripping locations, a second pass is the identity, the built-in self-check reports nothing, and the emboss-format CLI equals the API.",
         "Trusted: token and IR comparison in checks/c11.py. Inputs that do not parse are outside the property.",
         "DESIGN.md section 3, C11"),
}
NOT_YET = "check not built yet in this round (planned in DESIGN.md section 3); no claim made"

def main():
    checks = []
    for pid in PROPS:
        if pid not in CHECKS:
            continue
        cat, tech, text, note, ref = CHECKS[pid]
        checks.append({
            "property_id": pid,
            "quick_cmd": "./check %s --tier quick" % pid,
            "thorough_cmd": "./check %s --tier thorough" % pid,
            "evidence_file": "/verif/evidence/%s.json" % pid,
            "replay_cmd_template": "./check %s --replay {path}" % pid,
            "engine": "vk",
            "level_claimed": {"category": cat, "text": text, "design_ref": ref},
            "level_note": note,
            "technique": tech,
        })
    man = {
        "version": 1,
        "setup_cmd": "/venv/bin/python -c \"import sys; sys.path.insert(0,'/verif'); import vk.common\" && chmod +x /verif/check",
        "hooks": {
            "guard": "GOOGLE_EMBOSS_VERIF",
            "enable": "no source hooks are needed; checks drive public entry points of /repo (VERIF_REPO overrides the tree location for mutation demonstrations)",
            "baseline_off_cmd": "cd /repo && /venv/bin/python -m pytest -ra -q -p no:cacheprovider --timeout=900 --continue-on-collection-errors",
            "source_commits": [],
            "add_only": True,
        },
        "engines": [{
            "name": "vk", "path": "/verif/vk",
            "serves_properties": sorted(CHECKS),
            "kind_free_text": "hand-written bounded-exhaustive explorer (deviation-bounded choice enumeration, explicit-state search over automata present in the code, fork pool) executing the real compiler / generated C++ against small reference models",
        }],
        "checks": checks,
        "notes": "Known genuine defects are listed in /verif/known_findings.json; see DESIGN.md.",
        "not_applicable": [{"property_id": p, "reason": NOT_YET} for p in PROPS if p not in CHECKS],
    }
    with open(os.path.join(HERE, "MANIFEST.json"), "w") as f:
        json.dump(man, f, indent=1)
        f.write("\n")

main()
