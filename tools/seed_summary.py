#!/usr/bin/env python3
"""Writes seeded/SUMMARY.md from the seeded/<id>/meta.json files (latest matrix result per seed)."""
import json, os, glob
VERIF = os.path.dirname(os.path.dirname(os.path.abspath(__file__)))
rows = []
for d in sorted(glob.glob(os.path.join(VERIF, "seeded", "C*-*"))):
    mp = os.path.join(d, "meta.json")
    if not os.path.exists(mp):
        continue
    m = json.load(open(mp))
    sid = m["id"]
    own = m["property"]
    checks = m.get("checks", {})
    o = checks.get(own, {})
    others = ["%s:%s" % (c, "yes" if r.get("detected") else "no") for c, r in checks.items() if c != own]
    rows.append((sid, "yes" if o.get("detected") else ("NO" if o else "-"), ", ".join(o.get("violation_keys", [])[:3])[:90], " ".join(others),
                 "rebased" if os.path.exists(os.path.join(d, "REBASED.txt")) else "", (m.get("needs_to_manifest") or "")[:150]))
with open(os.path.join(VERIF, "seeded", "SUMMARY.md"), "w") as f:
    f.write("# Seeded changes: latest result per seed (quick tier, scratch worktree with the patch applied)\n\n")
    f.write("%d seeds; reported by the property's own check: %d; by another check only: %d; by none: %d\n\n" % (
        len(rows), sum(r[1] == "yes" for r in rows), sum(r[1] != "yes" and "yes" in r[3] for r in rows),
        sum(r[1] != "yes" and "yes" not in r[3] for r in rows)))
    f.write("| seed | own check | keys | other checks | | needs |\n|---|---|---|---|---|---|\n")
    for r in rows:
        f.write("| %s | %s | %s | %s | %s | %s |\n" % r)
print(open(os.path.join(VERIF, "seeded", "SUMMARY.md")).read()[:600])
